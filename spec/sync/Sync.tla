------------------------------- MODULE Sync -------------------------------
(* C13 / C14 / C15 - synchronisation of signac projects and jobs
   (Project.sync, Job.sync, signac.sync.sync_projects, signac.sync.sync_jobs).

   The module has three layers.
   1. SyncFn(src, dst, o) - the synchronisation WRITTEN LIKE THE IMPLEMENTATION (signac/sync.py of the pinned
      tree): schema gate; project document merge under backup; per selected source job clone-or-sync in
      listing order; dircmp walk (left-only copy, strategy on differing files, recursion into common
      sub-directories); shallow rule; ByKey recursion with skipped keys and the final conflict raise; rollback.
      Defects of the pinned tree are NAMED DEVIATIONS switched by boolean constants (TRUE = as the pinned tree).
   2. REQUIREMENTS - the statements of C13 / C14 / C15 written independently of SyncFn as predicates over
      (case, post-state, result).  They are checked by TLC (a) on SyncFn's own result for every generated case
      and (b) on RECORDED REAL EXECUTIONS (MODE = "file"), which is where verdicts about the code come from.
   3. Generators: MODE = "gen"   every initial state is one case (src, dst, options)
                  MODE = "cligen" / "clifile"  the same two for the command line front end `signac sync` (section 1d)
                  MODE = "file"  every initial state is one recorded real sync (trace validation, SyncTrace)
                  MODE = "steps" per-job steps as separate actions, all orders explored (model of `parallel`). *)
EXTENDS Naturals, Sequences, FiniteSets, TLC, Json, IOUtils, Randomization, SequencesExt, Functions, FiniteSetsExt

CONSTANTS MODE,     \* "gen" | "file" | "steps"
          PROP,     \* "C13" | "C14" | "C15" : which option dimensions vary and which requirements are checked
          NCASE,    \* number of generated cases of this run (one shard)
          FULLOPT,  \* TRUE: full option product (thorough), FALSE: pairwise covering rows (quick)
          \* ---- named deviations of the pinned tree (TRUE = behave like the pinned tree) ---------------------
          DryCopyRaises,          \* DEVIATION D1: dry_run: _FileModifyProxy.copy calls _safe_relpath(src, root) -> TypeError
          DryCopytreeMkdirs,      \* DEVIATION D2: dry_run: proxy.copytree = shutil.copytree -> directories are created for real
          DryNestedDocWrites,     \* DEVIATION D3: dry_run: _DocProxy.__getitem__ returns the live sub-dict -> nested keys written
          ProjDeepDropped,        \* DEVIATION D4: sync_projects does not forward deep= to sync_jobs
          CopytreeIgnoresExclude, \* DEVIATION D5: exclude is not applied inside copytree (cloned jobs, left-only sub-directories)
          DircmpIgnoreList,       \* DEVIATION D6: filecmp.dircmp default ignore list hides RCS CVS tags .git ... on both sides
          DryJobNeedsDstDir,      \* DEVIATION D7: job-level dry_run on an uninitialised destination job: dircmp -> FileNotFoundError
          CloneExcludeHitsSpecial,\* DEVIATION D8: the exclude patterns given to copytree at clone time also hit the state point / document file
          SpecialByPrefix,        \* DEVIATION D10: the state point / document file names are appended to the exclude PATTERNS (re.match: prefix,
                                  \*                '.' a wildcard) and applied at every depth, so user files that merely start like them are skipped
          CliFilterOnCwd          \* DEVIATION D9: `signac sync -f <filter>` evaluates the filter on the project of the working directory

NOW   == 9                                     \* mtime of everything written by the sync (larger than all model times)
DOCFN == "signac_job_document.json"
BAKFN == DOCFN \o "~"      \* roll-back copy of create_backup; a STALE one is left behind by a sync that died inside the document sync
OLDTXT == "{\"old\": 1}"    \* content of the stale roll-back copies of the generated universe (an older document)
IgnoreNames == {"RCS", "CVS", "tags", ".git", ".hg", ".bzr", "_darcs", "__pycache__"}

---------------------------------------------------------------------------
(* Shapes (uniform, see HARNESS.md):
   FileRec  [data, size, mtime]                      data: content token, same data => same size
   Dir      [f : name -> FileRec, d : name -> Dir]
   DV       [t, s, m]   t = "s": scalar with canonical JSON text s;  t = "m": mapping m : key -> DV
   Job      [sp, dir, doc, dex, dmt]   sp: state point file present; doc: DV mapping; dex/dmt: document file exists / its mtime
   Project  [jobs : id -> Job, pdoc : DV, pbak : BOOLEAN]   pbak: a stale signac_project_document.json~ exists (a stale job-level
            roll-back copy is simply the file BAKFN in the job directory)
   Opts     [strategy, custom, docSync, keysel, recursive, exclude:[on,names], selection:[on,ids], checkSchema,
             deep, dryRun, parallel, entry, jid, order, nord, kord]                                             *)
EmptyDir == [f |-> <<>>, d |-> <<>>]
Sc(txt)  == [t |-> "s", s |-> txt, m |-> <<>>]
Mp(fun)  == [t |-> "m", s |-> "", m |-> fun]
EmptyDoc == Mp(<<>>)
NoJob    == [sp |-> FALSE, dir |-> EmptyDir, doc |-> EmptyDoc, dex |-> FALSE, dmt |-> 0]
FreshJob == [NoJob EXCEPT !.sp = TRUE]        \* Job.init(): directory + state point file
NoF      == [ex |-> FALSE, r |-> [data |-> "", size |-> 0, mtime |-> 0]]
ProjLevel(o) == o.entry \in {"Project.sync", "sync_projects"}

Over(f, g)   == [x \in (DOMAIN f) \cup (DOMAIN g) |-> IF x \in DOMAIN f THEN f[x] ELSE g[x]]   \* f wins
Without(f, S) == [x \in (DOMAIN f) \ S |-> f[x]]
SortBy(S, ord) == SelectSeq(ord, LAMBDA x : x \in S)
FirstOf(S, ord) == SortBy(S, ord)[1]

RECURSIVE FAt(_, _)
FAt(dir, p) == IF Len(p) = 1 THEN (IF p[1] \in DOMAIN dir.f THEN [ex |-> TRUE, r |-> dir.f[p[1]]] ELSE NoF)
               ELSE IF p[1] \in DOMAIN dir.d THEN FAt(dir.d[p[1]], Tail(p)) ELSE NoF
RECURSIVE AllFiles(_, _)
AllFiles(dir, pfx) == {[p |-> pfx \o <<n>>, r |-> dir.f[n]] : n \in DOMAIN dir.f}
                      \cup UNION {AllFiles(dir.d[n], pfx \o <<n>>) : n \in DOMAIN dir.d}
RECURSIVE AllDirs(_, _)
AllDirs(dir, pfx) == {pfx \o <<n>> : n \in DOMAIN dir.d} \cup UNION {AllDirs(dir.d[n], pfx \o <<n>>) : n \in DOMAIN dir.d}
\* some proper prefix of p is a file, or p itself is a directory: dircmp calls this "funny", the walk skips it
RECURSIVE Blocked(_, _)
Blocked(dir, p) == IF Len(p) = 1 THEN p[1] \in DOMAIN dir.d
                   ELSE p[1] \in DOMAIN dir.f \/ (p[1] \in DOMAIN dir.d /\ Blocked(dir.d[p[1]], Tail(p)))

---------------------------------------------------------------------------
(* 1a. files, as the code: _sync_job_workspaces + _FileModifyProxy *)
\* filecmp.cmp: shallow => equal (type, size, mtime) is "same"; otherwise by size then content.  deep => content.
Same(a, b, deep) == IF deep THEN a.data = b.data ELSE (a.size = b.size /\ a.mtime = b.mtime) \/ a.data = b.data
\* optional fields of the option record (only the command line front end sets them)
Opt(o, f, default) == IF f \in DOMAIN o THEN o[f] ELSE default
\* --size-only replaces filecmp's signature by (type, size): equal size => "identical" without looking at content or time
SameO(a, b, deep, o) == IF ~deep /\ Opt(o, "sizeOnly", FALSE) THEN a.size = b.size ELSE Same(a, b, deep)
ExSp(o)  == o.exclude.on /\ Opt(o.exclude, "sp", FALSE)      \* the exclude pattern also matches 'signac_statepoint.json'
ExDoc(o) == o.exclude.on /\ Opt(o.exclude, "doc", FALSE)     \* ... 'signac_job_document.json'
UserExcl(n, o) == o.exclude.on /\ n \in o.exclude.names     \* re.match on the NAME inside the current directory
\* The files signac manages itself (state point; the document unless COPY) must not take part in the file walk.  DEVIATION D10: sync_jobs
\* appends their NAMES to the exclude patterns, so every name that re.match()es them is skipped, at every depth of the walk and inside
\* copied sub-directories: 'signac_statepoint.json.bak', 'signac_statepointXjson', a roll-back copy 'signac_job_document.json~', and
\* a file called exactly 'signac_statepoint.json' in a sub-directory.  Fixed: the two files are skipped by exact name at the top level
\* only (they are not part of the model's directories at all), user patterns keep their re.match semantics.
SPFN == "signac_statepoint.json"
SpLike  == {SPFN, "signac_statepoint.json.bak", "signac_statepointXjson"}
DocLike == {DOCFN, BAKFN, "signac_job_document.json.orig"}
SpecialHit(n, o) == SpecialByPrefix /\ (n \in SpLike \/ (o.docSync # "copy" /\ n \in DocLike))
Excl(n, o) == UserExcl(n, o) \/ SpecialHit(n, o)
InJob(o) == [k \in (DOMAIN o) \cup {"inJob"} |-> IF k = "inJob" THEN TRUE ELSE o[k]]       \* copytree called from inside sync_jobs
Ign(n)     == DircmpIgnoreList /\ n \in IgnoreNames           \* DEVIATION D6
TreeExcl(n, o) == ~CopytreeIgnoresExclude /\ (UserExcl(n, o) \/ (Opt(o, "inJob", FALSE) /\ SpecialHit(n, o)))   \* DEVIATION D5 (fixed: copytree(ignore=...))
CopyFile(a, o) == IF Opt(o, "times", FALSE) THEN a ELSE [a EXCEPT !.mtime = NOW]   \* shutil.copy: fresh mtime; copy2 (-p -t): preserved
Verdict(sf, df, p, o) == CASE o.strategy = "always" -> TRUE
                           [] o.strategy = "never"  -> FALSE
                           [] o.strategy = "update" -> sf.mtime > df.mtime          \* FileSync.update
                           [] o.strategy = "custom" -> p \in o.custom
                           [] OTHER -> FALSE
SumSet2(S, f(_)) == FoldSet(LAMBDA e, acc : acc + f(e), 0, S)
RECURSIVE CopyTree(_, _)
CopyTree(S, o) == [f |-> [n \in {n \in DOMAIN S.f : ~TreeExcl(n, o)} |-> CopyFile(S.f[n], o)],
                   d |-> [n \in {n \in DOMAIN S.d : ~TreeExcl(n, o)} |-> CopyTree(S.d[n], o)]]
RECURSIVE Skeleton(_, _)
Skeleton(S, o) == [f |-> <<>>, d |-> [n \in {n \in DOMAIN S.d : ~TreeExcl(n, o)} |-> Skeleton(S.d[n], o)]]
RECURSIVE NFiles(_, _)
NFiles(S, o) == Cardinality({n \in DOMAIN S.f : ~TreeExcl(n, o)}) + SumSet2({n \in DOMAIN S.d : ~TreeExcl(n, o)}, LAMBDA n : NFiles(S.d[n], o))
RECURSIVE HasAnyFile(_, _)
HasAnyFile(S, o) == (\E n \in DOMAIN S.f : ~TreeExcl(n, o)) \/ (\E n \in DOMAIN S.d : ~TreeExcl(n, o) /\ HasAnyFile(S.d[n], o))

RECURSIVE Walk(_, _, _, _, _), WalkSubs(_, _, _, _, _, _)
\* one directory level; returns [dir, res, fn, cons, n]  (cons = paths the strategy was consulted for, n = calls of proxy.copy)
Walk(S, D, o, deep, pfx) ==
  LET dn   == (DOMAIN D.f) \cup (DOMAIN D.d)
      dry  == o.dryRun
      loF  == {n \in DOMAIN S.f : ~Ign(n) /\ n \notin dn /\ ~Excl(n, o)}
      loD  == {n \in DOMAIN S.d : ~Ign(n) /\ n \notin dn /\ ~Excl(n, o) /\ o.recursive}
      diff == {n \in (DOMAIN S.f) \cap (DOMAIN D.f) : ~Ign(n) /\ ~Excl(n, o) /\ ~SameO(S.f[n], D.f[n], deep, o)}
      subs == SortBy({n \in (DOMAIN S.d) \cap (DOMAIN D.d) : ~Ign(n)}, o.nord)    \* no exclude test here (as the code)
      \* the left_only loop handles files AND directories, i.e. directories arrive before differing files are looked at
      loCopies == loF # {} \/ \E n \in loD : HasAnyFile(S.d[n], InJob(o))
      D1 == IF ~dry THEN [f |-> Over([n \in loF |-> CopyFile(S.f[n], o)], D.f), d |-> Over([n \in loD |-> CopyTree(S.d[n], InJob(o))], D.d)]
            ELSE IF DryCopytreeMkdirs THEN [D EXCEPT !.d = Over([n \in loD |-> Skeleton(S.d[n], InJob(o))], D.d)]
            ELSE D
      over == {n \in diff : Verdict(S.f[n], D.f[n], pfx \o <<n>>, o)}
      cons == IF o.strategy = "none" THEN {} ELSE {pfx \o <<n>> : n \in diff}
      D2 == IF dry THEN D1 ELSE [D1 EXCEPT !.f = Over([n \in over |-> CopyFile(S.f[n], o)], D1.f)]
      n1 == Cardinality(loF) + SumSet2(loD, LAMBDA n : NFiles(S.d[n], InJob(o)))
      n2 == n1 + Cardinality(over)
  IN IF dry /\ DryCopyRaises /\ loCopies THEN [dir |-> D1, res |-> "TypeError", fn |-> "", cons |-> {}, n |-> 0]
     ELSE IF diff # {} /\ o.strategy = "none" THEN [dir |-> D1, res |-> "FileSyncConflict", fn |-> FirstOf(diff, o.nord), cons |-> {}, n |-> n1]
     ELSE IF dry /\ DryCopyRaises /\ over # {} THEN [dir |-> D1, res |-> "TypeError", fn |-> "", cons |-> cons, n |-> n1]
     ELSE IF o.recursive THEN WalkSubs(subs, S, [dir |-> D2, res |-> "ok", fn |-> "", cons |-> cons, n |-> n2], o, deep, pfx)
     ELSE [dir |-> D2, res |-> "ok", fn |-> "", cons |-> cons, n |-> n2]
WalkSubs(seq, S, acc, o, deep, pfx) ==
  IF seq = <<>> THEN acc
  ELSE LET n == Head(seq)
           w == Walk(S.d[n], acc.dir.d[n], o, deep, pfx \o <<n>>)
           a2 == [dir |-> [acc.dir EXCEPT !.d[n] = w.dir], res |-> w.res, fn |-> w.fn, cons |-> acc.cons \cup w.cons, n |-> acc.n + w.n]
       IN IF w.res # "ok" THEN a2 ELSE WalkSubs(Tail(seq), S, a2, o, deep, pfx)

---------------------------------------------------------------------------
(* 1b. documents, as the code: DocSync.ByKey / DocSync.update under _DocProxy + create_doc_backup *)
KeySel(name, o) == o.docSync = "bykeyall" \/ (o.docSync \in {"bykeyfn", "bykeyre"} /\ name \in o.keysel)     \* key_strategy(root + key)
\* nested levels receive the LIVE sub-dict (DEVIATION D3), so only top-level writes are gated by dry_run
NestedLive(o) == ~o.dryRun \/ DryNestedDocWrites
RECURSIVE ByKey(_, _, _, _, _)
\* s, d : key -> DV.  Result [m, skipped, terr].  Keys are independent of each other inside one level.
ByKey(s, d, root, o, live) ==
  LET none == [set |-> FALSE, v |-> EmptyDoc, sk |-> {}, te |-> FALSE]
      one(k) ==
        IF k \notin DOMAIN d THEN [none EXCEPT !.set = live, !.v = s[k]]
        ELSE IF d[k] = s[k] THEN none                                               \* dst[key] == value: continue
        ELSE IF s[k].t = "m"
             THEN IF d[k].t = "m"
                  THEN LET r == ByKey(s[k].m, d[k].m, k \o ".", o, NestedLive(o))   \* root is key + "." (parent only, as the code)
                       IN [set |-> TRUE, v |-> Mp(r.m), sk |-> r.skipped, te |-> r.terr]
                  ELSE [none EXCEPT !.te = (s[k].m # <<>>)]                          \* `key in <scalar>` -> TypeError
        ELSE IF ~KeySel(root \o k, o) THEN [none EXCEPT !.sk = {root \o k}]          \* skipped_keys.add
        ELSE [none EXCEPT !.set = live, !.v = s[k]]
      setk == {k \in DOMAIN s : one(k).set}
  IN [m |-> [k \in (DOMAIN d) \cup setk |-> IF k \in setk THEN one(k).v ELSE d[k]],
      skipped |-> UNION {one(k).sk : k \in DOMAIN s},
      terr |-> \E k \in DOMAIN s : one(k).te]
\* returns [doc, res, keys]; a raise restores the backup unless dry_run (then backup and restore are both gated off)
\* stale: '<document>~' already exists.  create_doc_backup uses the file-level backup for a non-empty document with a file, and
\* create_backup REFUSES (RuntimeError) when the roll-back copy already exists - before anything is touched, dry run or not.
DocMerge(sd, dd, o, stale) ==
  IF sd = dd THEN [doc |-> dd, res |-> "ok", keys |-> {}]                            \* src.document != dst.document
  ELSE IF stale /\ dd # EmptyDoc THEN [doc |-> dd, res |-> "RuntimeError", keys |-> {}]
  ELSE IF o.docSync = "update"
       THEN [doc |-> IF o.dryRun THEN dd ELSE Mp(Over(sd.m, dd.m)), res |-> "ok", keys |-> {}]
  ELSE LET r == ByKey(sd.m, dd.m, "", o, ~o.dryRun) IN
       IF r.terr THEN [doc |-> IF o.dryRun THEN Mp(r.m) ELSE dd, res |-> "TypeError", keys |-> {}]
       ELSE IF r.skipped # {} /\ o.docSync = "bykey"
            THEN [doc |-> IF o.dryRun THEN Mp(r.m) ELSE dd, res |-> "DocumentSyncConflict", keys |-> r.skipped]
       ELSE [doc |-> Mp(r.m), res |-> "ok", keys |-> r.skipped]       \* with a key strategy skipped keys are only reported

\* canonical JSON text (json.dumps(sort_keys=True)) of a document: the content token and size of the document FILE under COPY
RECURSIVE JoinStr(_, _)
JoinStr(ss, sep) == IF ss = <<>> THEN "" ELSE IF Len(ss) = 1 THEN ss[1] ELSE ss[1] \o sep \o JoinStr(Tail(ss), sep)
RECURSIVE DocText(_, _)
DocText(v, kord) == IF v.t = "s" THEN v.s
                    ELSE LET ks == SortBy(DOMAIN v.m, kord) IN
                         "{" \o JoinStr([i \in 1..Len(ks) |-> "\"" \o ks[i] \o "\": " \o DocText(v.m[ks[i]], kord)], ", ") \o "}"
DocFileRec(j, o) == LET t == DocText(j.doc, o.kord) IN [data |-> t, size |-> Len(t), mtime |-> j.dmt]
WithDocFile(j, o) == IF j.dex THEN [j.dir EXCEPT !.f = Over((DOCFN :> DocFileRec(j, o)), j.dir.f)] ELSE j.dir

---------------------------------------------------------------------------
(* 1c. one job: sync_jobs; one project: sync_projects *)
\* returns [job, present, res, fn, keys, cons, n]   (keys: the conflicting keys of DocumentSyncConflict, or the keys skipped by a key strategy)
JobStep(sj, dj0, exists, o, deep) ==
  LET copy == o.docSync = "copy" IN
  IF ~exists /\ o.dryRun
  THEN [job |-> NoJob, present |-> FALSE, res |-> IF DryJobNeedsDstDir THEN "FileNotFoundError" ELSE "ok",     \* DEVIATION D7
        fn |-> "", keys |-> {}, cons |-> {}, n |-> 0]
  ELSE
  LET dj == IF exists THEN dj0 ELSE FreshJob                                         \* if not dry_run: dst.init()
      w  == Walk(IF copy THEN WithDocFile(sj, o) ELSE sj.dir, IF copy THEN WithDocFile(dj, o) ELSE dj.dir, o, deep, <<>>)
      jf == IF ~copy THEN [dj EXCEPT !.dir = w.dir]
            ELSE IF DOCFN \notin DOMAIN w.dir.f THEN [dj EXCEPT !.dir = w.dir]
            ELSE LET r == w.dir.f[DOCFN] IN
                 [sp |-> dj.sp, dir |-> [w.dir EXCEPT !.f = Without(w.dir.f, {DOCFN})],
                  doc |-> IF dj.dex /\ r.data = DocText(dj.doc, o.kord) THEN dj.doc ELSE sj.doc, dex |-> TRUE, dmt |-> r.mtime]
  IN IF w.res # "ok" THEN [job |-> jf, present |-> TRUE, res |-> w.res, fn |-> w.fn, keys |-> {}, cons |-> w.cons, n |-> w.n]
     ELSE IF o.docSync \in {"nosync", "copy"} THEN [job |-> jf, present |-> TRUE, res |-> "ok", fn |-> "", keys |-> {}, cons |-> w.cons, n |-> w.n]
     ELSE LET m == DocMerge(sj.doc, dj.doc, o, BAKFN \in DOMAIN w.dir.f) IN     \* files first: a copied BAKFN counts
          [job |-> [jf EXCEPT !.doc = m.doc, !.dex = (dj.dex \/ m.doc # EmptyDoc)], present |-> TRUE,
           res |-> m.res, fn |-> "", keys |-> m.keys, cons |-> w.cons, n |-> w.n]

ProjDeep(o) == IF ProjDeepDropped THEN FALSE ELSE o.deep                               \* DEVIATION D4
\* _clone_or_sync
ProjStep(sj, dst, j, o) ==
  IF j \in DOMAIN dst.jobs THEN JobStep(sj, dst.jobs[j], TRUE, o, ProjDeep(o))
  ELSE LET hit == ~CopytreeIgnoresExclude /\ CloneExcludeHitsSpecial           \* DEVIATION D8: the ignore callable of the clone
           nosp == hit /\ ExSp(o)   nodoc == hit /\ ExDoc(o)                   \* sees every name of the job directory
           ncopy == NFiles(sj.dir, o) + (IF nosp THEN 0 ELSE 1) + (IF sj.dex /\ ~nodoc THEN 1 ELSE 0)
       IN IF ~o.dryRun
          THEN [job |-> [sp |-> ~nosp, dir |-> CopyTree(sj.dir, o), doc |-> IF nodoc THEN EmptyDoc ELSE sj.doc,
                         dex |-> sj.dex /\ ~nodoc, dmt |-> IF sj.dex /\ ~nodoc THEN NOW ELSE 0],
                present |-> TRUE, res |-> "ok", fn |-> "", keys |-> {}, cons |-> {}, n |-> ncopy]
          ELSE [job |-> [NoJob EXCEPT !.dir = Skeleton(sj.dir, o)], present |-> DryCopytreeMkdirs,    \* DEVIATION D2: makedirs for real
                res |-> IF DryCopyRaises /\ ncopy > 0 THEN "TypeError" ELSE "ok",                     \* D1: the first file that is copied
                fn |-> "", keys |-> {}, cons |-> {}, n |-> 0]

SchemaOf(ids, sps) == [k \in UNION {DOMAIN sps[i] : i \in ids} |-> {sps[i][k] : i \in {x \in ids : k \in DOMAIN sps[x]}}]
SchemaConflict(src, dst, o) == LET a == SchemaOf(DOMAIN src.jobs, o.sps)  b == SchemaOf(DOMAIN dst.jobs, o.sps)
                               IN DOMAIN a # {} /\ DOMAIN b # {} /\ a # b
Selected(src, o) == IF ProjLevel(o) THEN {j \in DOMAIN src.jobs : ~o.selection.on \/ j \in o.selection.ids}
                    ELSE {o.jid} \cap DOMAIN src.jobs
PutJob(P, j, st) == IF st.present THEN [P EXCEPT !.jobs = Over((j :> st.job), P.jobs)] ELSE P
\* the per-job steps in listing order, stopping at the first one that raises.  Jobs are independent of each other (a step reads and
\* writes only its own job), so the fold is written without recursion: with hundreds of jobs a chain of nested function
\* overrides would exhaust TLC's stack.
ProjFold(seq, src, acc, o) ==
  LET st(j) == ProjStep(src.jobs[j], acc.dst, j, o)
      bad == {i \in 1..Len(seq) : st(seq[i]).res # "ok"}
      last == IF bad = {} THEN Len(seq) ELSE Min(bad)                       \* index of the last step taken
      done == {seq[i] : i \in 1..last}
      put == {j \in done : st(j).present}
  IN IF seq = <<>> THEN acc
     ELSE [dst |-> [acc.dst EXCEPT !.jobs = [j \in (DOMAIN acc.dst.jobs) \cup put |-> IF j \in put THEN st(j).job ELSE acc.dst.jobs[j]]],
           res |-> st(seq[last]).res, fn |-> st(seq[last]).fn, keys |-> st(seq[last]).keys,
           cons |-> acc.cons \cup UNION {{<<j>> \o p : p \in st(j).cons} : j \in done},
           sk |-> acc.sk \cup UNION {st(j).keys : j \in done}, n |-> acc.n + SumSet2(done, LAMBDA j : st(j).n)]
\* the synchronisation: post-state of the destination and the result; jobs in listing order o.order (sequential)
SyncFn(src, dst, o) ==
  LET base == [dst |-> dst, res |-> "ok", fn |-> "", keys |-> {}, cons |-> {}, sk |-> {}, n |-> 0] IN
  IF ProjLevel(o)
  THEN IF o.checkSchema /\ SchemaConflict(src, dst, o) THEN [base EXCEPT !.res = "SchemaSyncConflict"]
       ELSE LET pm == IF o.docSync \in {"nosync", "copy"} THEN [doc |-> dst.pdoc, res |-> "ok", keys |-> {}]
                      ELSE DocMerge(src.pdoc, dst.pdoc, o, dst.pbak)
                b1 == [base EXCEPT !.dst = [dst EXCEPT !.pdoc = pm.doc], !.res = pm.res, !.keys = pm.keys, !.sk = pm.keys]
            IN IF pm.res # "ok" THEN b1
               ELSE ProjFold(SelectSeq(o.order, LAMBDA j : j \in Selected(src, o)), src, b1, o)
  ELSE IF o.jid \notin DOMAIN src.jobs THEN base                                    \* "nothing to be done if src is not initialized"
       ELSE LET ex == o.jid \in DOMAIN dst.jobs
                st == JobStep(src.jobs[o.jid], IF ex THEN dst.jobs[o.jid] ELSE NoJob, ex, o, o.deep)
            IN [dst |-> PutJob(dst, o.jid, st), res |-> st.res, fn |-> st.fn, keys |-> st.keys,
                cons |-> {<<o.jid>> \o p : p \in st.cons}, sk |-> st.keys, n |-> st.n]

---------------------------------------------------------------------------
(* 1d. THE COMMAND LINE FRONT END  `signac sync <source> [destination] [flags]`  (main_sync in signac/__main__.py).
   Every command is its own process over the on-disk state; it is the COMPOSITION "translate the flags into the arguments of
   destination.sync(source, ...)" ; SyncFn - so the library front and the command front cannot drift apart.
   cmd = [strategy ("none" | "never" | "always" | "update": -s), viaU (-u instead of -s update), bad (argument combinations main_sync
          refuses: "u+s" -u with -s, "t-no-p" -t without -p, "two-keys" more than one of -k / --all-keys / --no-keys),
          keyMode ("default" | "all" --all-keys | "none" --no-keys | "regex" -k), keysel (the key names the regex matches),
          recursive -r, archive -a (= -rltpog), perms -p, times -t, exclude [on, names, sp, doc] (-x PATTERN; -x alone = ".*"),
          deep (-I / --ignore-times), sizeOnly, roundTimes, dryRun -n, merge -m, force --force, parallel, sel [kind, ids, fk, fv]
          (-j IDS | -f KEY VALUE), stats (--stats --json), destArg (destination given explicitly), order, nord, kord, sps]
   What the command reports: exit status 0 / 1, on stderr the message class (schema / document / file conflict with its payload,
   "Error: ..." for everything else, "Skipped key(s): ..." and "Done." on success), on stdout the transfer statistics.
   Not modelled (no observable effect on this universe, stated as assumption): -l links, -p perms, -o owner, -g group; --round-times
   equals the default comparison because all model times are whole seconds. *)
IsCli == MODE \in {"cligen", "clifile"}
BadArgs(cmd) == cmd.bad # "none"
SpMatch(sp, k, v) == k \in DOMAIN sp /\ sp[k] = v
\* -f: "Only synchronize jobs matching the filter" = the SOURCE jobs matching it.  DEVIATION D9: main_sync asks get_project(),
\* i.e. the project of the working directory (the destination), for the matching ids - jobs that exist only in the source never match.
CliSel(cmd, src, dst, asCode) ==
  CASE cmd.sel.kind = "none"  -> [on |-> FALSE, ids |-> {}]
    [] cmd.sel.kind = "jobid" -> [on |-> TRUE, ids |-> cmd.sel.ids]
    [] OTHER -> LET P == IF asCode /\ CliFilterOnCwd THEN dst ELSE src IN
                [on |-> TRUE, ids |-> {j \in DOMAIN P.jobs : SpMatch(cmd.sps[j], cmd.sel.fk, cmd.sel.fv)}]
\* the arguments of destination.sync(source, ...) the flags must become (asCode: as main_sync does it, else: as promised)
CliOpts(cmd, src, dst, asCode) ==
  [strategy |-> IF cmd.viaU THEN "update" ELSE cmd.strategy, custom |-> {},
   docSync |-> CASE cmd.keyMode = "all" -> "bykeyall" [] cmd.keyMode = "none" -> "bykeyfn" [] cmd.keyMode = "regex" -> "bykeyre" [] OTHER -> "bykey",
   keysel |-> IF cmd.keyMode = "regex" THEN cmd.keysel ELSE {},
   recursive |-> cmd.recursive \/ cmd.archive, exclude |-> cmd.exclude, selection |-> CliSel(cmd, src, dst, asCode),
   checkSchema |-> ~(cmd.merge \/ cmd.force), deep |-> cmd.deep, dryRun |-> cmd.dryRun, parallel |-> cmd.parallel,
   entry |-> "Project.sync", jid |-> "", order |-> cmd.order, nord |-> cmd.nord, kord |-> cmd.kord, sps |-> cmd.sps,
   sizeOnly |-> cmd.sizeOnly, times |-> (cmd.times \/ cmd.archive)]
CliFn(src, dst, cmd, asCode) ==
  IF BadArgs(cmd) THEN [dst |-> dst, res |-> "ValueError", fn |-> "", keys |-> {}, cons |-> {}, sk |-> {}, n |-> 0]   \* refused before anything is opened
  ELSE SyncFn(src, dst, CliOpts(cmd, src, dst, asCode))
\* the message classes of the command line
ResName(r) == IF ~IsCli \/ r \in {"ok", "SchemaSyncConflict", "DocumentSyncConflict", "FileSyncConflict"} THEN r ELSE "Error"
\* the case as the code runs it
Run(c) == IF IsCli THEN CliFn(c.src, c.dst, c.cmd, TRUE) ELSE SyncFn(c.src, c.dst, c.o)
CodeOpts(c) == IF IsCli THEN CliOpts(c.cmd, c.src, c.dst, TRUE) ELSE c.o

---------------------------------------------------------------------------
(* 2. REQUIREMENTS (C13, C14, C15), independent of SyncFn.
   x = [src, dst, o, post, res, fn, keys, cons, post2, res2, srcSame, srcAfter, rawSame, seqPost, seqRes]
   is either SyncFn's own outcome (MX below) or a recorded real execution (MODE = "file").
   Calibrated rules (documentation silent; the pinned tree's single-item behaviour, never flagged):
     R-shallow : without deep, regular files with equal (size, mtime) count as identical (filecmp shallow semantics)
     R-funny   : a name that is a file on one side and a directory on the other is skipped
     R-update  : DocSync.update is dict.update: top-level keys, nested mappings replaced wholesale
     R-copy    : under DocSync.COPY the job document is a file (file rules apply, project document not synchronised)
     R-mixed   : ByKey with a non-empty source mapping over a destination scalar raises TypeError (document rolled back)
     R-stale   : a stale roll-back copy '<document>~' makes the document sync of a non-empty document refuse with RuntimeError,
                 document untouched (any exception is fine for C14 as long as the document keeps its pre-sync content) *)
RECURSIVE NoTimeDir(_)
NoTimeDir(dir) == [f |-> [n \in DOMAIN dir.f |-> [dir.f[n] EXCEPT !.mtime = 0]], d |-> [n \in DOMAIN dir.d |-> NoTimeDir(dir.d[n])]]
NoTimeJob(j)   == [j EXCEPT !.dir = NoTimeDir(j.dir), !.dmt = 0]
NoTimeProj(P)  == [P EXCEPT !.jobs = [j \in DOMAIN P.jobs |-> NoTimeJob(P.jobs[j])]]
JobOf(P, j)    == IF j \in DOMAIN P.jobs THEN P.jobs[j] ELSE NoJob
EffDir(job, o) == IF o.docSync = "copy" THEN WithDocFile(job, o) ELSE job.dir        \* R-copy
ExclPath(p, o) == o.exclude.on /\ \E i \in 1..Len(p) : p[i] \in o.exclude.names
SpecialLikePath(p) == \E i \in 1..Len(p) : p[i] \in SpLike \cup DocLike
IgnPath(p)     == \E i \in 1..Len(p) : p[i] \in IgnoreNames
Reach(p, o)    == Len(p) = 1 \/ o.recursive
IsOk(x)        == x.res = "ok" /\ ~x.o.dryRun
NewJob(x, j)   == ProjLevel(x.o) /\ j \notin DOMAIN x.dst.jobs
SelX(x)        == Selected(x.src, x.o)
Level(x)       == IF ProjLevel(x.o) THEN "project" ELSE "job"

(* ---- C13 ---- *)
ReqSuperset(x) == IsOk(x) => \A j \in SelX(x) : j \in DOMAIN x.post.jobs /\ x.post.jobs[j].sp
MissingFiles(x) ==
  UNION {{[j |-> j, p |-> f.p] : f \in {f \in AllFiles(x.src.jobs[j].dir, <<>>) :
             /\ ~ExclPath(f.p, x.o)
             /\ ~FAt(JobOf(x.dst, j).dir, f.p).ex /\ ~Blocked(JobOf(x.dst, j).dir, f.p)
             /\ (Reach(f.p, x.o) \/ NewJob(x, j))
             /\ ~(LET g == FAt(JobOf(x.post, j).dir, f.p) IN g.ex /\ g.r.data = f.r.data)}} : j \in SelX(x) \cap DOMAIN x.post.jobs}      \* (a selected job missing altogether: Superset)
ReqFilesArrive(x) == IsOk(x) => MissingFiles(x) = {}
RECURSIVE KeysKept(_, _, _, _)
KeysKept(s, d, pv, nested) ==
  pv.t = "m" /\ \A k \in DOMAIN d :
     IF k \notin DOMAIN s THEN k \in DOMAIN pv.m /\ pv.m[k] = d[k]
     ELSE (nested /\ s[k].t = "m" /\ d[k].t = "m") => (k \in DOMAIN pv.m /\ KeysKept(s[k].m, d[k].m, pv.m[k], nested))
DocFrame(s, d, pv, o) == o.docSync = "copy" \/ KeysKept(s.m, d.m, pv, o.docSync # "update")      \* R-copy, R-update
ReqDstOnlyUntouched(x) == IsOk(x) =>
  /\ \A j \in DOMAIN x.dst.jobs :
       /\ j \in DOMAIN x.post.jobs
       /\ \A f \in AllFiles(x.dst.jobs[j].dir, <<>>) :
            (j \notin DOMAIN x.src.jobs \/ ~FAt(x.src.jobs[j].dir, f.p).ex) => FAt(x.post.jobs[j].dir, f.p) = [ex |-> TRUE, r |-> f.r]
       /\ IF j \in DOMAIN x.src.jobs THEN DocFrame(x.src.jobs[j].doc, x.dst.jobs[j].doc, x.post.jobs[j].doc, x.o)
          ELSE x.post.jobs[j].doc = x.dst.jobs[j].doc
  /\ IF ProjLevel(x.o) /\ x.o.docSync # "copy" THEN DocFrame(x.src.pdoc, x.dst.pdoc, x.post.pdoc, x.o)
     ELSE x.post.pdoc = x.dst.pdoc
ReqSrcUntouched(x) == x.srcSame /\ x.srcAfter = x.src
\* "repeating the same sync changes nothing".  The repeat may RAISE (e.g. SchemaSyncConflict once a selected job was cloned into an
\* empty destination: the schema gate compares value sets) - the statement is about the destination, which must not change.
ReqIdempotent(x)   == IsOk(x) => NoTimeProj(x.post2) = NoTimeProj(x.post)

\* "... and touches nothing else": with a selection, jobs outside it are neither created nor modified (an EMPTY selection selects nothing)
ReqNothingElse(x) == (IsOk(x) /\ ProjLevel(x.o) /\ x.o.selection.on) =>
  \A j \in ((DOMAIN x.src.jobs) \cup (DOMAIN x.dst.jobs) \cup (DOMAIN x.post.jobs)) \ x.o.selection.ids :
     (j \in DOMAIN x.post.jobs) = (j \in DOMAIN x.dst.jobs) /\ JobOf(x.post, j) = JobOf(x.dst, j)

(* ---- C14 ---- *)
\* files present on both sides, in jobs the sync looks at
BothFiles(x) ==
  UNION {{[j |-> j, p |-> f.p, s |-> f.r, d |-> FAt(EffDir(x.dst.jobs[j], x.o), f.p).r] :
             f \in {f \in AllFiles(EffDir(x.src.jobs[j], x.o), <<>>) : FAt(EffDir(x.dst.jobs[j], x.o), f.p).ex}}
         : j \in SelX(x) \cap DOMAIN x.dst.jobs}
Cand(x)   == {b \in BothFiles(x) : ~ExclPath(b.p, x.o) /\ Reach(b.p, x.o)}
PostF(x, b) == FAt(EffDir(JobOf(x.post, b.j), x.o), b.p)
Kept(x, b)  == PostF(x, b) = [ex |-> TRUE, r |-> b.d]
Written(x, b) == PostF(x, b).ex /\ PostF(x, b).r.data = b.s.data
ReqOverwriteIffStrategy(x) == IsOk(x) =>
  \A b \in Cand(x) : ~SameO(b.s, b.d, x.o.deep, x.o) =>                                      \* R-shallow
       IF Verdict(b.s, b.d, b.p, x.o) THEN Written(x, b) ELSE Kept(x, b)
ReqConflictLeavesFile(x) == ~x.o.dryRun =>
  /\ x.o.strategy = "none" => \A b \in BothFiles(x) : b.s.data # b.d.data => Kept(x, b)
  /\ (x.o.strategy = "none" /\ x.res = "ok") => \A b \in Cand(x) : SameO(b.s, b.d, x.o.deep, x.o)
  /\ x.res = "FileSyncConflict" => x.o.strategy = "none" /\ \E b \in Cand(x) : ~SameO(b.s, b.d, x.o.deep, x.o) /\ Last(b.p) = x.fn
\* documents the sync merges: [w, s, d, p]
DocLocs(x) ==
  (IF ProjLevel(x.o) /\ x.o.docSync # "copy" THEN {[w |-> "project", s |-> x.src.pdoc, d |-> x.dst.pdoc, p |-> x.post.pdoc]} ELSE {})
  \cup {[w |-> j, s |-> x.src.jobs[j].doc, d |-> x.dst.jobs[j].doc, p |-> JobOf(x.post, j).doc]
        : j \in IF x.o.docSync = "copy" THEN {} ELSE SelX(x) \cap DOMAIN x.dst.jobs}
\* names (parent + "." + key) of keys with differing non-mapping source values
RECURSIVE Confl(_, _, _)
Confl(s, d, root) == UNION {IF k \notin DOMAIN d \/ d[k] = s[k] THEN {}
                            ELSE IF s[k].t = "m" THEN (IF d[k].t = "m" THEN Confl(s[k].m, d[k].m, k \o ".") ELSE {})
                            ELSE {root \o k} : k \in DOMAIN s}
RECURSIVE KeptUnsel(_, _, _, _, _)
\* a key with differing values that is not a mapping on BOTH sides (same-type or mixed-type, either direction) keeps the destination
\* value unless the key strategy selects it; mappings on both sides are merged key by key
KeptUnsel(s, d, pv, root, o) ==
  pv.t = "m" /\ \A k \in (DOMAIN s) \cap (DOMAIN d) : d[k] # s[k] =>
     IF s[k].t = "m" /\ d[k].t = "m" THEN k \in DOMAIN pv.m /\ KeptUnsel(s[k].m, d[k].m, pv.m[k], k \o ".", o)
     ELSE ~KeySel(root \o k, o) => (k \in DOMAIN pv.m /\ pv.m[k] = d[k])
\* some plain destination value (number / string / list) was replaced by a source mapping
RECURSIVE MapOverPlain(_, _, _)
MapOverPlain(s, d, pv) ==
  pv.t = "m" /\ \E k \in (DOMAIN s) \cap (DOMAIN d) \cap (DOMAIN pv.m) :
     \/ s[k].t = "m" /\ d[k].t = "s" /\ pv.m[k] # d[k]
     \/ s[k].t = "m" /\ d[k].t = "m" /\ MapOverPlain(s[k].m, d[k].m, pv.m[k])
ReqDocOverwriteIffKeyStrategy(x) == IsOk(x) =>
  \A L \in DocLocs(x) :
     CASE x.o.docSync = "update" -> L.p.t = "m" /\ \A k \in DOMAIN L.s.m : k \in DOMAIN L.p.m /\ L.p.m[k] = L.s.m[k]
       [] x.o.docSync = "nosync" -> L.p = L.d
       [] OTHER -> KeptUnsel(L.s.m, L.d.m, L.p, "", x.o) /\ (x.o.docSync = "bykey" => Confl(L.s.m, L.d.m, "") = {})
ReqDocRollbackExact(x) == (~x.o.dryRun /\ x.res = "DocumentSyncConflict") =>
  /\ x.o.docSync = "bykey" /\ \E L \in DocLocs(x) : Confl(L.s.m, L.d.m, "") # {}
  /\ \A L \in DocLocs(x) : Confl(L.s.m, L.d.m, "") # {} => L.p = L.d

(* ---- C15 ---- *)
\* result classes a raise inside the thread pool can surface: imap reports the first job IN ORDER that raised, but the ByKey object
\* (and its skipped_keys) is shared by all workers, so a job that is fine on its own may raise DocumentSyncConflict for another job's keys
ParResOf(src, dst, o) ==
  LET sel == Selected(src, o) IN
  ({ProjStep(src.jobs[j], dst, j, o).res : j \in sel} \ {"ok"})
  \cup (IF o.docSync = "bykey" /\ \E j \in sel \cap DOMAIN dst.jobs : ByKey(src.jobs[j].doc.m, dst.jobs[j].doc.m, "", o, FALSE).skipped # {}
        THEN {"DocumentSyncConflict"} ELSE {})
\* "completes (or reports the conflict a real run would)"
RealResSet(x) == LET o2 == [x.o EXCEPT !.dryRun = FALSE]
                     r == IF IsCli /\ BadArgs(x.cmd) THEN "ValueError" ELSE SyncFn(x.src, x.dst, o2).res IN
  {r} \cup (IF ProjLevel(o2) /\ o2.parallel # "no" /\ r # "ok" THEN ParResOf(x.src, x.dst, o2) ELSE {})
\* a document file may be REWRITTEN with identical content (a failed item assignment on a synced list saves on exit): not a change
NoDmt(P) == [P EXCEPT !.jobs = [j \in DOMAIN P.jobs |-> [P.jobs[j] EXCEPT !.dmt = 0]]]
\* (R-stale: when the real run would be refused because of a roll-back copy - possibly one it has just copied itself - the dry run,
\*  which copies nothing, is not required to predict that)
DryResOk(x) == x.res \in {ResName(r) : r \in RealResSet(x)} \/ "RuntimeError" \in RealResSet(x)
ReqDryRunFrame(x) == x.o.dryRun => x.rawSame /\ x.srcSame /\ NoDmt(x.post) = NoDmt(x.dst) /\ DryResOk(x)
ReqDeepByContent(x) == (x.o.deep /\ ~x.o.dryRun) =>
  /\ x.res = "ok" => \A b \in Cand(x) : b.s.data # b.d.data =>
        x.o.strategy # "none" /\ IF Verdict(b.s, b.d, b.p, x.o) THEN Written(x, b) ELSE Kept(x, b)
  /\ x.res = "FileSyncConflict" => \E b \in Cand(x) : b.s.data # b.d.data /\ Last(b.p) = x.fn
ExclTouched(x) ==
  UNION {{[j |-> j, p |-> p] : p \in {p \in {f.p : f \in AllFiles(JobOf(x.src, j).dir, <<>>) \cup AllFiles(JobOf(x.dst, j).dir, <<>>)
                                                  \cup AllFiles(JobOf(x.post, j).dir, <<>>)} :
                 Last(p) \in x.o.exclude.names /\ FAt(JobOf(x.post, j).dir, p) # FAt(JobOf(x.dst, j).dir, p)}}
         : j \in (DOMAIN x.src.jobs) \cup (DOMAIN x.dst.jobs) \cup (DOMAIN x.post.jobs)}
ReqExcludeFrame(x) == (~x.o.dryRun /\ x.o.exclude.on) => ExclTouched(x) = {}
ReqSelectionFrame(x) == (ProjLevel(x.o) /\ x.o.selection.on) =>
  \A j \in ((DOMAIN x.src.jobs) \cup (DOMAIN x.dst.jobs) \cup (DOMAIN x.post.jobs)) \ x.o.selection.ids :
     (j \in DOMAIN x.post.jobs) = (j \in DOMAIN x.dst.jobs) /\ JobOf(x.post, j) = JobOf(x.dst, j)
\* (for executions that end in an error see R-parallel-abort below: only "parallel fails iff sequential fails" is judged)
ReqOrderConfluent(x) == x.o.parallel # "no" =>
  /\ (x.res = "ok") = (x.seqRes = "ok")
  /\ x.res = "ok" => NoTimeProj(x.post) = NoTimeProj(x.seqPost)

\* command level: a refused or failed synchronisation exits with status 1, a completed one with 0
ReqCliExit(x) == x.exit = IF x.res = "ok" THEN 0 ELSE 1
\* command level, "never silent": a conflicting document key that is not overwritten is reported ("Skipped key(s): ...")
ReqCliNeverSilent(x) == IsOk(x) => \A L \in DocLocs(x) : {k \in Confl(L.s.m, L.d.m, "") : ~KeySel(k, x.o)} \subseteq x.skipped
LibReqNames == CASE PROP = "C13" -> {"Superset", "FilesArrive", "DstOnlyUntouched", "SrcUntouched", "Idempotent", "NothingElse"}
              [] PROP = "C14" -> {"OverwriteIffStrategy", "ConflictLeavesFile", "DocOverwriteIffKeyStrategy", "DocRollbackExact"}
              [] PROP = "C15" -> {"DryRunFrame", "DeepByContent", "ExcludeFrame", "SelectionFrame", "OrderConfluent"}
ReqNames == IF ~IsCli THEN LibReqNames ELSE LibReqNames \cup {"CliExit"} \cup (IF PROP = "C14" THEN {"CliNeverSilent"} ELSE {})
ReqVal(n, x) == CASE n = "CliExit" -> ReqCliExit(x) [] n = "CliNeverSilent" -> ReqCliNeverSilent(x) [] n = "Superset" -> ReqSuperset(x) [] n = "FilesArrive" -> ReqFilesArrive(x)
                  [] n = "DstOnlyUntouched" -> ReqDstOnlyUntouched(x) [] n = "SrcUntouched" -> ReqSrcUntouched(x)
                  [] n = "Idempotent" -> ReqIdempotent(x) [] n = "NothingElse" -> ReqNothingElse(x) [] n = "OverwriteIffStrategy" -> ReqOverwriteIffStrategy(x)
                  [] n = "ConflictLeavesFile" -> ReqConflictLeavesFile(x) [] n = "DocOverwriteIffKeyStrategy" -> ReqDocOverwriteIffKeyStrategy(x)
                  [] n = "DocRollbackExact" -> ReqDocRollbackExact(x) [] n = "DryRunFrame" -> ReqDryRunFrame(x)
                  [] n = "DeepByContent" -> ReqDeepByContent(x) [] n = "ExcludeFrame" -> ReqExcludeFrame(x)
                  [] n = "SelectionFrame" -> ReqSelectionFrame(x) [] n = "OrderConfluent" -> ReqOrderConfluent(x)
\* R-parallel-abort: a project-level sync with parallel # False that ENDS IN AN ERROR (exception / exit status 1) has a TIMING-DEPENDENT
\* post-state: the other pool workers are somewhere in the middle of their jobs when the error surfaces (and a command line process
\* kills them on exit: half-copied files, a left-over roll-back copy '...json~').  For such an execution only what does not depend on
\* timing is judged - the error is reported / the exit status, the source is untouched, jobs outside the selection are untouched, and
\* parallel fails exactly when sequential fails - and the per-file frame, strategy and document requirements are skipped (they are judged
\* on the executions that return and on the sequential ones).  The harness counts these executions ("abort" in its statistics).
Abort(x) == ProjLevel(x.o) /\ x.o.parallel # "no" /\ x.res # "ok"
TimingFree == {"SrcUntouched", "SelectionFrame", "NothingElse", "OrderConfluent", "CliExit"}
Violated(x) == {n \in (IF Abort(x) THEN ReqNames \cap TimingFree ELSE ReqNames) : ~ReqVal(n, x)}

\* what exactly is wrong, as short tags: all manifestations of one defect share a tag, different defects get different ones
PFiles(P) == UNION {{<<j, f>> : f \in AllFiles(P.jobs[j].dir, <<>>)} : j \in DOMAIN P.jobs}
PDirs(P)  == UNION {{<<j>>} \cup {<<j>> \o d : d \in AllDirs(P.jobs[j].dir, <<>>)} : j \in DOMAIN P.jobs}
Tags(n, x) ==
  CASE n = "FilesArrive" -> {IF \A m \in MissingFiles(x) : IgnPath(m.p) THEN "dircmp-ignored-name"
                             ELSE IF \A m \in MissingFiles(x) : SpecialLikePath(m.p) THEN "name-matches-special-file-pattern"
                             ELSE "file-missing:" \o Level(x)}
    [] n = "DryRunFrame" ->
         LET js == (DOMAIN x.post.jobs) \cup (DOMAIN x.dst.jobs)
             t1 == IF ~DryResOk(x) THEN {"raises-" \o x.res} ELSE {}
             t2 == IF PDirs(x.post) # PDirs(x.dst) THEN {"directory-created"} ELSE {}
             \* DEVIATION D3 only reaches keys INSIDE mappings that exist on both sides; anything else is a different defect
             nestedOnly(d, q) == q.t = "m" /\ DOMAIN q.m = DOMAIN d.m /\ \A k \in DOMAIN d.m : q.m[k] = d.m[k] \/ (q.m[k].t = "m" /\ d.m[k].t = "m")
             docs == {<<x.dst.pdoc, x.post.pdoc>>} \cup {<<JobOf(x.dst, j).doc, JobOf(x.post, j).doc>> : j \in js}
             t3 == IF \E pr \in docs : pr[1] # pr[2]
                   THEN {IF \A pr \in docs : nestedOnly(pr[1], pr[2]) THEN "nested-document-key-written" ELSE "document-written"} ELSE {}
             t4 == IF PFiles(x.post) # PFiles(x.dst) THEN {"file-written"} ELSE {}
             t5 == IF ~x.srcSame THEN {"source-changed"} ELSE {}
             t6 == IF \E j \in js : JobOf(x.post, j).doc = JobOf(x.dst, j).doc /\ JobOf(x.post, j).dex # JobOf(x.dst, j).dex
                   THEN {"document-file-created"} ELSE {}
             t  == t1 \cup t2 \cup t3 \cup t4 \cup t5 \cup t6
         IN IF t = {} THEN {"other-change"} ELSE t
    [] n = "DeepByContent" -> {Level(x) \o "-level"}
    [] n = "ExcludeFrame" ->
         {IF NewJob(x, m.j) \/ (Len(m.p) > 1 /\ ~(SubSeq(m.p, 1, Len(m.p) - 1) \in AllDirs(JobOf(x.dst, m.j).dir, <<>>)))
          THEN "excluded-file-created-by-copytree" ELSE "excluded-file-touched:" \o Level(x) : m \in ExclTouched(x)}
    [] n \in {"OverwriteIffStrategy", "ConflictLeavesFile"} -> {x.o.strategy \o ":" \o Level(x)}
    [] n = "DocOverwriteIffKeyStrategy" ->
         {IF \E L \in DocLocs(x) : MapOverPlain(L.s.m, L.d.m, L.p) THEN "mapping-replaced-plain-value:" \o x.o.docSync ELSE x.o.docSync \o ":" \o Level(x)}
    [] n = "DocRollbackExact" ->
         {IF x.dst.pbak \/ \E j \in DOMAIN x.dst.jobs : BAKFN \in DOMAIN x.dst.jobs[j].dir.f THEN "stale-backup:" \o Level(x) ELSE x.o.docSync \o ":" \o Level(x)}
    [] n = "NothingElse" -> {IF SelX(x) = {} THEN "nothing-selected" ELSE "unselected-job-touched"}
    [] n = "OrderConfluent" -> {x.o.parallel}
    [] n = "Idempotent" ->
         {IF \E j \in DOMAIN x.post.jobs : ~x.post.jobs[j].sp THEN "cloned-job-without-state-point" ELSE Level(x)}
    [] n = "Superset" ->
         {IF \E j \in SelX(x) : j \in DOMAIN x.post.jobs /\ ~x.post.jobs[j].sp THEN "cloned-job-without-state-point"
          ELSE IF IsCli /\ x.cmd.sel.kind = "filter" THEN "filter-not-applied-to-source" ELSE Level(x)}
    [] OTHER -> {Level(x)}

---------------------------------------------------------------------------
(* 3a. SyncFn's own outcome as an x-record, and conformance of a recorded real execution *)
NoCmd == [bad |-> "none", stats |-> FALSE, sel |-> [kind |-> "none"]]
MX(c) == LET R == Run(c)  R2 == Run([c EXCEPT !.dst = R.dst]) IN
  [src |-> c.src, dst |-> c.dst, o |-> c.o, cmd |-> IF IsCli THEN c.cmd ELSE NoCmd, post |-> R.dst, res |-> ResName(R.res), fn |-> R.fn,
   keys |-> R.keys, cons |-> R.cons, post2 |-> R2.dst, res2 |-> ResName(R2.res), srcSame |-> TRUE, srcAfter |-> c.src,
   rawSame |-> (R.dst = c.dst), seqPost |-> R.dst, seqRes |-> ResName(R.res),
   exit |-> IF R.res = "ok" THEN 0 ELSE 1, skipped |-> R.sk, nstat |-> R.n]
\* deviations that excuse a requirement on the MODEL side (all FALSE once the proposed fixes are applied)
UsesIgnored(c) == \E j \in DOMAIN c.src.jobs : \E f \in AllFiles(c.src.jobs[j].dir, <<>>) : IgnPath(f.p)
Excused(c) ==
  (IF c.o.dryRun /\ (DryCopyRaises \/ DryCopytreeMkdirs \/ DryNestedDocWrites \/ DryJobNeedsDstDir) THEN {"DryRunFrame"} ELSE {})
  \cup (IF ProjDeepDropped /\ ProjLevel(c.o) /\ c.o.deep THEN {"DeepByContent"} ELSE {})
  \cup (IF CopytreeIgnoresExclude /\ c.o.exclude.on THEN {"ExcludeFrame"} ELSE {})
  \cup (IF DircmpIgnoreList /\ UsesIgnored(c) THEN {"FilesArrive"} ELSE {})
  \cup (IF SpecialByPrefix /\ \E j \in DOMAIN c.src.jobs : \E f \in AllFiles(c.src.jobs[j].dir, <<>>) : SpecialLikePath(f.p)
        THEN {"FilesArrive"} ELSE {})
  \cup (IF CloneExcludeHitsSpecial /\ ExSp(c.o) THEN {"Superset", "Idempotent"} ELSE {})   \* (the repeat meets a directory without state point)
  \cup (IF CliFilterOnCwd /\ IsCli /\ c.cmd.sel.kind = "filter" THEN {"Superset", "FilesArrive"} ELSE {})

\* document mtimes are only meaningful when the document is treated as a file
MaskJob(j, o)  == IF o.docSync = "copy" THEN j ELSE [j EXCEPT !.dmt = 0]
MaskProj(P, o) == [P EXCEPT !.jobs = [j \in DOMAIN P.jobs |-> MaskJob(P.jobs[j], o)]]
PdocStageOk(x) == ~(x.o.checkSchema /\ SchemaConflict(x.src, x.dst, x.o))
                  /\ (x.o.docSync \in {"nosync", "copy"} \/ DocMerge(x.src.pdoc, x.dst.pdoc, x.o, x.dst.pbak).res = "ok")
\* partial effects that are NOT deterministic: (i) dry-run TypeError (scandir order decides which directories exist, dict order
\* which nested keys), (ii) a raise inside the thread pool (other workers keep going).  Specified as a relation.
Loose(x, R) == (x.o.dryRun /\ R.res = "TypeError")
               \/ (ProjLevel(x.o) /\ x.o.parallel # "no" /\ R.res # "ok" /\ PdocStageOk(x))
LooseOK(x, R) ==
  /\ x.post.pdoc = R.dst.pdoc \/ (x.o.dryRun /\ DryNestedDocWrites)
  /\ \A j \in (DOMAIN x.post.jobs) \cup (DOMAIN x.dst.jobs) :
       LET inP == j \in DOMAIN x.post.jobs   inD == j \in DOMAIN x.dst.jobs
           pj == MaskJob(JobOf(x.post, j), x.o)   dj == JobOf(x.dst, j) IN
       IF j \notin SelX(x) THEN inP = inD /\ JobOf(x.post, j) = dj
       ELSE LET st == ProjStep(x.src.jobs[j], x.dst, j, x.o) IN
            \/ inP = inD /\ pj = MaskJob(dj, x.o)                                      \* not reached
            \/ inP /\ st.present /\ pj = MaskJob(st.job, x.o)                          \* its own step, completely
            \/ inP /\ st.present /\ pj.dir = st.job.dir /\ pj.doc = dj.doc            \* files done, document rolled back (the ByKey object and
                                                                                      \* its skipped_keys are shared by all workers; the in-memory
                                                                                      \* rollback may leave an empty document file)
            \/ /\ IsCli /\ inP /\ st.present                 \* the command exits while pool workers are mid-way (daemon threads are killed):
               /\ {f.p : f \in {g \in AllFiles(pj.dir, <<>>) : g.p # <<BAKFN>> /\ \A i \in 1..Len(g.p) : g.p[i] \in ToSet(x.o.nord)}}     \* (a roll-back copy or a
                     \subseteq {f.p : f \in AllFiles(dj.dir, <<>>) \cup AllFiles(st.job.dir, <<>>)}               \* temporary file may be left behind) any part of the
               /\ {f.p : f \in AllFiles(dj.dir, <<>>)} \subseteq {f.p : f \in AllFiles(pj.dir, <<>>)}       \* job's step, a file possibly half-written
               /\ AllDirs(pj.dir, <<>>) \subseteq AllDirs(dj.dir, <<>>) \cup AllDirs(st.job.dir, <<>>)
            \/ /\ x.o.dryRun /\ inP                                                   \* dry run: no file content changes, directories may appear
               /\ AllFiles(pj.dir, <<>>) = AllFiles(dj.dir, <<>>)
               /\ AllDirs(dj.dir, <<>>) \subseteq AllDirs(pj.dir, <<>>)
               /\ AllDirs(pj.dir, <<>>) \subseteq AllDirs(dj.dir, <<>>) \cup AllDirs(x.src.jobs[j].dir, <<>>)
               /\ IF inD THEN DryNestedDocWrites \/ pj.doc = dj.doc ELSE DryCopytreeMkdirs /\ pj.doc = EmptyDoc
\* first failing conjunct, "" when the recorded execution is a behaviour of the specification
ConfWhy(x0) == LET R == Run(x0)  x == [x0 EXCEPT !.o = CodeOpts(x0)] IN
  IF x.res # ResName(R.res) /\ ~(Loose(x, R) /\ ProjLevel(x.o) /\ x.o.parallel # "no" /\ x.res \in {ResName(r) : r \in ParResOf(x.src, x.dst, x.o)}) THEN "result"
  ELSE IF Loose(x, R) THEN (IF LooseOK(x, R) THEN "" ELSE "partial-state")
  ELSE IF MaskProj(x.post, x.o) # MaskProj(R.dst, x.o) THEN "post-state"
  ELSE IF R.res = "FileSyncConflict" /\ x.fn # R.fn THEN "payload"
  ELSE IF R.res = "DocumentSyncConflict" /\ x.keys # R.keys THEN "payload"
  ELSE IF x.o.strategy = "custom" /\ R.res = "ok" /\ x.cons # R.cons THEN "consulted"
  ELSE IF IsCli /\ x.exit # (IF R.res = "ok" THEN 0 ELSE 1) THEN "exit-status"
  ELSE IF IsCli /\ R.res = "ok" /\ x.skipped # R.sk THEN "skipped-keys"
  ELSE IF IsCli /\ x.cmd.stats /\ R.res = "ok" /\ ~x.o.dryRun /\ x.nstat # R.n THEN "statistics"
  ELSE ""

---------------------------------------------------------------------------
(* 3b. generator: the bounded universe.  All randomness is one constant table RAW (evaluated once, reproducible under -seed) *)
CONSTANT OFFSET       \* global index of this shard's first case (selects option rows)
NR == 110
IsFileMode == MODE \in {"file", "clifile"}
RAW == IF IsFileMode THEN <<>> ELSE [i \in 1..NCASE |-> [k \in 1..NR |-> RandomElement(0..1048575)]]
Ids == <<"sp1", "sp2", "sp3">>
SPTAB == [sp1 |-> [a |-> "1"], sp2 |-> [a |-> "2"], sp3 |-> [b |-> "1"]]
NORD == <<"f", "g", "s", DOCFN, BAKFN, SPFN, "signac_statepoint.json.bak", "tags">>       \* sorted() order of every name of the universe
KORD == <<"k1", "k2", "n", "old">>
DataSeq == <<[data |-> "A", size |-> 1], [data |-> "B", size |-> 1], [data |-> "CC", size |-> 2]>>
\* LARGE contents (opaque tokens; the harness expands "@<size>:<v>" to <size> bytes: v = a the base content, f / m / z the base with its
\* first / middle / last byte changed).  Comparators that read in blocks must see a difference anywhere in a 20 KiB or 70 KiB file.
BigA == <<[data |-> "@20480:a", size |-> 20480], [data |-> "@71680:a", size |-> 71680]>>
IsBig(d) == d \in {"@20480:a", "@20480:f", "@20480:m", "@20480:z", "@71680:a", "@71680:f", "@71680:m", "@71680:z"}
SlotAt(k) == IF k = 0 THEN NoF
             ELSE IF k > 6 THEN [ex |-> TRUE, r |-> [data |-> BigA[k - 6].data, size |-> BigA[k - 6].size, mtime |-> k - 6]]
             ELSE [ex |-> TRUE, r |-> [data |-> DataSeq[((k - 1) % 3) + 1].data, size |-> DataSeq[((k - 1) % 3) + 1].size,
                                                      mtime |-> 1 + ((k - 1) \div 3)]]
NSLOT == 9          \* 0 absent, 1..6 small contents x 2 mtimes, 7..8 large contents
\* same size (and mtime), other content; for large contents r chooses where the single differing byte is
Twin(d, r) == CASE d = "A" -> "B" [] d = "B" -> "A"
                [] d = "@20480:a" -> <<"@20480:f", "@20480:m", "@20480:z">>[(r % 3) + 1]
                [] d = "@71680:a" -> <<"@71680:f", "@71680:m", "@71680:z">>[(r % 3) + 1]
                [] OTHER -> d
\* destination slot related to the source slot: same / absent / same content other mtime / shallow twin / independent
RelSlot(s, r, compat) == IF ~compat THEN (IF r % 5 = 0 /\ s.ex THEN [s EXCEPT !.r.data = Twin(s.r.data, r \div 5)] ELSE SlotAt((r \div 5) % NSLOT))
                         ELSE CASE r % 5 = 0 -> s [] r % 5 = 1 -> NoF
                                [] r % 5 = 2 -> (IF s.ex THEN [s EXCEPT !.r.mtime = 3 - s.r.mtime] ELSE s)
                                [] r % 5 = 3 -> (IF s.ex THEN [s EXCEPT !.r.data = Twin(s.r.data, r \div 5)] ELSE s)   \* same size and mtime, other content
                                [] OTHER -> SlotAt((r \div 5) % NSLOT)
\* ssp: the sub-directory also holds a file named exactly like the state point file (an embedded project / exported sub-tree)
MkDir(top, sx, sf, ssp) == [f |-> [n \in {n \in DOMAIN top : top[n].ex} |-> top[n].r],
                            d |-> IF sx THEN ("s" :> [f |-> Over(IF sf.ex THEN ("f" :> sf.r) ELSE <<>>,
                                                                 IF ssp THEN (SPFN :> [data |-> "B", size |-> 1, mtime |-> 1]) ELSE <<>>), d |-> <<>>]) ELSE <<>>]
TopNames(tags) == IF tags THEN {"f", "g", "tags", "signac_statepoint.json.bak"} ELSE {"f", "g"}
Pos(n) == CASE n = "f" -> 0 [] n = "g" -> 1 [] OTHER -> 2
NVal(k) == CASE k = 0 -> [ex |-> FALSE, v |-> EmptyDoc] [] k = 1 -> [ex |-> TRUE, v |-> Sc("1")] [] k = 2 -> [ex |-> TRUE, v |-> Sc("2")]
             [] k = 3 -> [ex |-> TRUE, v |-> Mp(<<>>)] [] k = 4 -> [ex |-> TRUE, v |-> Mp(("k1" :> Sc("1")))]
             [] k = 5 -> [ex |-> TRUE, v |-> Mp(("k1" :> Sc("2")))]
             [] k = 7 -> [ex |-> TRUE, v |-> Mp(("k1" :> Mp(("k2" :> Sc("1")))))]      \* mapping inside the nested mapping (nested mixed-type conflicts)
             [] k = 8 -> [ex |-> TRUE, v |-> Sc("[7, 8]")]                              \* a list is a plain value
             [] OTHER -> [ex |-> TRUE, v |-> Mp(("k1" :> Sc("1")) @@ ("k2" :> Sc("2")))]
KVal(k) == NVal(k % 3)
RelVal(s, ind, r, compat) == IF ~compat THEN ind ELSE CASE r % 3 = 0 -> s [] r % 3 = 1 -> [ex |-> FALSE, v |-> EmptyDoc] [] OTHER -> ind
MkDoc(a, b, n) == Mp([k \in {k \in {"k1", "k2", "n"} : (CASE k = "k1" -> a [] k = "k2" -> b [] OTHER -> n).ex}
                       |-> (CASE k = "k1" -> a [] k = "k2" -> b [] OTHER -> n).v])
MkJob(dir, doc, r) == [sp |-> TRUE, dir |-> dir, doc |-> doc, dex |-> doc # EmptyDoc, dmt |-> IF doc # EmptyDoc THEN 1 + (r % 2) ELSE 0]
\* a (source job, destination job) pair from 20 random numbers v[b+1 .. b+20]
BakRec == [data |-> OLDTXT, size |-> Len(OLDTXT), mtime |-> 1]
AddBak(dir, yes) == IF yes THEN [dir EXCEPT !.f = Over((BAKFN :> BakRec), dir.f)] ELSE dir
JobPair(v, b, compat, tags, sbak, dbak) ==
  LET stop == [n \in TopNames(tags) |-> IF n = "tags" /\ v[b + 3] % 2 = 0 THEN NoF
                                         ELSE IF n = "signac_statepoint.json.bak" THEN (IF v[b + 3] % 3 = 0 THEN SlotAt(1 + (v[b + 3] % 6)) ELSE NoF)
                                         ELSE SlotAt(v[b + 1 + Pos(n)] % NSLOT)]
      dtop == [n \in TopNames(tags) |-> RelSlot(stop[n], v[b + 4 + Pos(n)], compat)]
      ssf == SlotAt(v[b + 7] % NSLOT)    dsf == RelSlot(ssf, v[b + 8], compat)
      sa == KVal(v[b + 11])  sb == KVal(v[b + 12])  sn == NVal(v[b + 13] % 9)
      da == RelVal(sa, KVal(v[b + 14]), v[b + 14] \div 8, compat)
      db == RelVal(sb, KVal(v[b + 15]), v[b + 15] \div 8, compat)
      dnn == RelVal(sn, NVal(v[b + 16] % 9), v[b + 16] \div 8, compat)
  IN [s |-> MkJob(AddBak(MkDir(stop, v[b + 9] % 2 = 1, ssf, tags /\ v[b + 9] % 3 = 0), sbak), MkDoc(sa, sb, sn), v[b + 17]),
      d |-> MkJob(AddBak(MkDir(dtop, v[b + 10] % 3 > 0, dsf, FALSE), dbak), MkDoc(da, db, dnn), v[b + 18])]
SubsetAt(k) == {Ids[i] : i \in {i \in 1..3 : (k \div (IF i = 1 THEN 1 ELSE IF i = 2 THEN 2 ELSE 4)) % 2 = 1}}
PermSeq == SetToSeq(SetToSeqs({"sp1", "sp2", "sp3"}))
CustomSeq == <<{}, {<<"f">>}, {<<"g">>, <<"s", "f">>}, {<<"f">>, <<"g">>, <<"s", "f">>, <<DOCFN>>}, {<<"s", "f">>, <<DOCFN>>}>>
KeySelSeq == <<{"k1"}, {"n", "n.k1"}, {"n.k1", "k2"}, {"k2", "n"}, {"n.k2"}>>

\* option rows: codes per dimension, per property
AllStrat == {"none", "always", "never", "update", "custom"}
AllDoc   == {"bykey", "bykeyfn", "bykeyre", "update", "nosync", "copy"}
AllEntry == {"Project.sync", "sync_projects", "Job.sync", "sync_jobs"}
OptDom == CASE PROP = "C13" -> [strategy |-> AllStrat, docSync |-> AllDoc, recursive |-> BOOLEAN, exclude |-> {"off", "f", "g", "all"},
                                selection |-> {"off", "none", "ghost", "sp1", "sp13", "sp2"}, checkSchema |-> BOOLEAN, deep |-> {FALSE},
                                dryRun |-> {FALSE}, parallel |-> {"no"}, entry |-> AllEntry]
            [] PROP = "C14" -> [strategy |-> AllStrat, docSync |-> AllDoc, recursive |-> BOOLEAN, exclude |-> {"off", "g"},
                                selection |-> {"off", "sp13"}, checkSchema |-> {FALSE}, deep |-> {FALSE},
                                dryRun |-> {FALSE}, parallel |-> {"no"}, entry |-> AllEntry]
            [] PROP = "C15" -> [strategy |-> AllStrat, docSync |-> {"bykey", "bykeyfn", "update", "nosync", "copy"}, recursive |-> BOOLEAN,
                                exclude |-> {"off", "f", "g", "all"}, selection |-> {"off", "none", "ghost", "sp1", "sp13", "sp2"}, checkSchema |-> {FALSE},
                                deep |-> BOOLEAN, dryRun |-> BOOLEAN, parallel |-> {"no", "two", "all"}, entry |-> AllEntry]
Fields == <<"strategy", "docSync", "recursive", "exclude", "selection", "checkSchema", "deep", "dryRun", "parallel", "entry">>
FieldSet == ToSet(Fields)
FullRows == [strategy : OptDom.strategy, docSync : OptDom.docSync, recursive : OptDom.recursive, exclude : OptDom.exclude,
             selection : OptDom.selection, checkSchema : OptDom.checkSchema, deep : OptDom.deep, dryRun : OptDom.dryRun,
             parallel : OptDom.parallel, entry : OptDom.entry]
PairRows == UNION {UNION {{[f \in FieldSet |-> IF f = Fields[i] THEN a ELSE IF f = Fields[j] THEN b ELSE RandomElement(OptDom[f])]
                              : a \in OptDom[Fields[i]], b \in OptDom[Fields[j]]} : j \in (i + 1)..Len(Fields)} : i \in 1..Len(Fields)}
OptSeq == IF IsFileMode THEN <<>> ELSE SetToSeq(IF FULLOPT THEN FullRows ELSE PairRows)
PairwiseCovered == \A i \in 1..Len(Fields) : \A j \in (i + 1)..Len(Fields) : \A a \in OptDom[Fields[i]] : \A b \in OptDom[Fields[j]] :
                      \E k \in 1..Len(OptSeq) : OptSeq[k][Fields[i]] = a /\ OptSeq[k][Fields[j]] = b
ASSUME IsFileMode \/ PairwiseCovered
MkOpt(row, v, src, dst) ==
  LET both == (DOMAIN src.jobs) \cap (DOMAIN dst.jobs)
      pool == IF both # {} /\ v[60] % 4 > 0 THEN SetToSeq(both) ELSE IF DOMAIN src.jobs # {} /\ v[60] % 8 > 0 THEN SetToSeq(DOMAIN src.jobs) ELSE Ids
  IN [strategy |-> row.strategy, custom |-> IF row.strategy = "custom" THEN CustomSeq[(v[61] % Len(CustomSeq)) + 1] ELSE {},
      docSync |-> row.docSync, keysel |-> IF row.docSync \in {"bykeyfn", "bykeyre"} THEN KeySelSeq[(v[62] % Len(KeySelSeq)) + 1] ELSE {},
      recursive |-> row.recursive,
      exclude |-> IF row.exclude = "all" THEN [on |-> TRUE, names |-> ToSet(NORD), sp |-> TRUE, doc |-> TRUE]      \* the pattern ".*"
                  ELSE [on |-> row.exclude # "off", names |-> IF row.exclude = "off" THEN {} ELSE {row.exclude}, sp |-> FALSE, doc |-> FALSE],
      selection |-> [on |-> row.selection # "off",
                     ids |-> CASE row.selection = "sp1" -> {"sp1"} [] row.selection = "sp13" -> {"sp1", "sp3"}
                               [] row.selection = "sp2" -> {"sp2"}
                               [] row.selection = "ghost" -> {"sp9"}        \* an id that exists nowhere
                               [] OTHER -> {}],                             \* "none": the empty selection
      checkSchema |-> row.checkSchema, deep |-> row.deep, dryRun |-> row.dryRun, parallel |-> row.parallel, entry |-> row.entry,
      jid |-> pool[(v[63] % Len(pool)) + 1], order |-> PermSeq[(v[64] % Len(PermSeq)) + 1], nord |-> NORD, kord |-> KORD, sps |-> SPTAB]
\* a (source project, destination project) pair from the random numbers v
GenPair(v) ==
  LET \* C13 wants syncs that return, C14 wants conflicts, C15 both
      compat == CASE PROP = "C13" -> v[1] % 4 > 0 [] PROP = "C14" -> v[1] % 3 = 0 [] OTHER -> v[1] % 2 = 0
      tags == PROP = "C13" /\ v[2] % 4 = 0 /\ ~IsCli
      sids == SubsetAt(IF v[3] % 3 = 0 THEN 7 ELSE (v[3] \div 3) % 8)
      dids == IF v[4] % 2 = 0 THEN sids ELSE SubsetAt((v[4] \div 2) % 8)
      \* stale roll-back copies: frequent in the destination for C14 (DocRollbackExact), occasional elsewhere and in the source
      bakmod == IF PROP = "C14" THEN 4 ELSE 12
      jp == [k \in 1..3 |-> JobPair(v, 5 + 18 * (k - 1), compat, tags, v[71 + 2 * k] % 15 = 0, v[72 + 2 * k] % bakmod = 0)]          \* v[6..59]
      idx(j) == CHOOSE k \in 1..3 : Ids[k] = j
      pa == KVal(v[65])  pb == KVal(v[66])  pn == NVal(v[67] % 9)
  IN [src |-> [jobs |-> [j \in sids |-> jp[idx(j)].s], pdoc |-> MkDoc(pa, pb, pn), pbak |-> FALSE],
      dst |-> [jobs |-> [j \in dids |-> jp[idx(j)].d],
               pdoc |-> MkDoc(RelVal(pa, KVal(v[68]), v[68] \div 8, compat), RelVal(pb, KVal(v[69]), v[69] \div 8, compat),
                              RelVal(pn, NVal(v[70] % 9), v[70] \div 8, compat)),
               pbak |-> v[79] % bakmod = 0]]
\* a command line: every flag drawn independently (v[81..100]); dry-run / deep / parallel vary for C15 only, as at library level
GenCmd(v) ==
  LET strat == <<"none", "never", "always", "update">>[(v[81] % 4) + 1]
      perms == v[87] % 3 = 0
      exc == v[89] % 6
  IN [strategy |-> strat, viaU |-> strat = "update" /\ v[82] % 2 = 0,
      bad |-> IF v[83] % 20 = 0 THEN <<"u+s", "t-no-p", "two-keys">>[((v[83] \div 20) % 3) + 1] ELSE "none",
      keyMode |-> <<"default", "all", "none", "regex">>[(v[84] % 4) + 1], keysel |-> KeySelSeq[(v[62] % Len(KeySelSeq)) + 1],
      recursive |-> v[85] % 2 = 0, archive |-> v[86] % 6 = 0, perms |-> perms, times |-> perms /\ v[88] % 2 = 0,
      exclude |-> CASE exc = 3 -> [on |-> TRUE, names |-> {"f"}, sp |-> FALSE, doc |-> FALSE]
                    [] exc = 4 -> [on |-> TRUE, names |-> {"g"}, sp |-> FALSE, doc |-> FALSE]
                    [] exc = 5 -> [on |-> TRUE, names |-> ToSet(NORD), sp |-> TRUE, doc |-> TRUE]          \* -x without a pattern: ".*"
                    [] OTHER -> [on |-> FALSE, names |-> {}, sp |-> FALSE, doc |-> FALSE],
      deep |-> PROP = "C15" /\ v[90] % 2 = 0, sizeOnly |-> PROP # "C13" /\ v[91] % 5 = 0, roundTimes |-> v[92] % 7 = 0,
      dryRun |-> PROP = "C15" /\ v[93] % 3 = 0, merge |-> v[94] % 4 \in {1, 3}, force |-> v[94] % 4 = 2,
      parallel |-> IF PROP = "C15" THEN <<"no", "two", "all">>[(v[95] % 3) + 1] ELSE "no",
      sel |-> CASE v[96] % 4 = 2 -> [kind |-> "jobid", ids |-> <<{"sp1"}, {"sp1", "sp3"}, {"sp2"}, {"sp9"}>>[(v[97] % 4) + 1], fk |-> "", fv |-> ""]
                [] v[96] % 4 = 3 -> [kind |-> "filter", ids |-> {}, fk |-> <<"a", "a", "b">>[(v[97] % 3) + 1], fv |-> <<"1", "2", "1">>[(v[97] % 3) + 1]]
                [] OTHER -> [kind |-> "none", ids |-> {}, fk |-> "", fv |-> ""],
      stats |-> v[98] % 3 = 0, destArg |-> v[99] % 2 = 0,
      order |-> PermSeq[(v[64] % Len(PermSeq)) + 1], nord |-> NORD, kord |-> KORD, sps |-> SPTAB]
GenCase(i) ==
  LET v == RAW[i]
      pr == GenPair(v)
  IN IF IsCli
     THEN LET cmd == GenCmd(v) IN [src |-> pr.src, dst |-> pr.dst, cmd |-> cmd, o |-> CliOpts(cmd, pr.src, pr.dst, FALSE)]
     ELSE \* gen: option rows in turn (every row is used); steps: a random row per case
          LET row == IF MODE = "steps" THEN OptSeq[(v[71] % Len(OptSeq)) + 1] ELSE OptSeq[((OFFSET + i - 1) % Len(OptSeq)) + 1]
          IN [src |-> pr.src, dst |-> pr.dst, o |-> MkOpt(row, v, pr.src, pr.dst)]

\* what a case exercises (vacuity guard and distinct-case counting in the harness)
Features(c, x) ==
  LET sel == SelX(x)
      bf == BothFiles(x)
      dl == DocLocs(x)
      lo == UNION {{f.p : f \in {f \in AllFiles(c.src.jobs[j].dir, <<>>) : ~FAt(JobOf(c.dst, j).dir, f.p).ex}} : j \in sel}
      T(b, s) == IF b THEN {s} ELSE {}
  IN {"res:" \o x.res, "entry:" \o c.o.entry}
     \cup T(\E j \in sel : j \notin DOMAIN c.dst.jobs, IF ProjLevel(c.o) THEN "clone" ELSE "job-dst-absent")
     \cup T(sel \cap DOMAIN c.dst.jobs # {}, "sync-existing")
     \cup T(\E p \in lo : Len(p) = 1, "leftonly-file") \cup T(\E p \in lo : Len(p) > 1, "leftonly-nested")
     \cup T(\E b \in bf : b.s.data # b.d.data /\ b.s.mtime > b.d.mtime, "diff-newer")
     \cup T(\E b \in bf : b.s.data # b.d.data /\ b.s.mtime < b.d.mtime, "diff-older")
     \cup T(\E b \in bf : b.s.data # b.d.data /\ b.s.mtime = b.d.mtime /\ b.s.size # b.d.size, "diff-eqtime")
     \cup T(\E b \in bf : b.s.data # b.d.data /\ b.s.mtime = b.d.mtime /\ b.s.size = b.d.size, "diff-shallow-equal")
     \cup T(\E b \in bf : b.s.data # b.d.data /\ Len(b.p) > 1, "diff-nested")
     \cup T(\E b \in bf : IsBig(b.s.data) /\ b.s.data # b.d.data /\ b.s.size = b.d.size /\ b.s.mtime = b.d.mtime
                          /\ b.d.data \in {"@20480:f", "@20480:m", "@71680:f", "@71680:m"}, "diff-large-before-last-block")
     \cup T(\E b \in bf : IsBig(b.s.data) /\ b.s.data # b.d.data /\ b.s.size = b.d.size /\ b.s.mtime = b.d.mtime /\ Len(b.p) > 1, "diff-large-nested")
     \cup T(\E b \in bf : IsBig(b.s.data) /\ b.s.data # b.d.data /\ b.s.size = b.d.size /\ b.d.data \in {"@20480:z", "@71680:z"}, "diff-large-last-byte")
     \cup T(\E b \in bf : b.s.data = b.d.data /\ b.s.mtime # b.d.mtime, "same-content-other-mtime")
     \cup T(\E b \in bf : ExclPath(b.p, c.o) /\ b.s.data # b.d.data, "diff-excluded")
     \cup T(\E L \in dl : Confl(L.s.m, L.d.m, "") # {}, "doc-conflict")
     \cup T(\E L \in dl : \E k \in Confl(L.s.m, L.d.m, "") : k \notin {"k1", "k2", "n"}, "doc-conflict-nested")
     \cup T(\E L \in dl : Confl(L.s.m, L.d.m, "") # {} /\ \E k \in DOMAIN L.s.m : k \notin DOMAIN L.d.m, "doc-conflict-with-mergeable-key")
     \cup T(\E L \in dl : \E k \in (DOMAIN L.s.m) \cap (DOMAIN L.d.m) : L.s.m[k].t # L.d.m[k].t, "doc-mixed-type")
     \cup T(\E L \in dl : \E k \in DOMAIN L.d.m : k \notin DOMAIN L.s.m, "dst-only-key")
     \cup T(\E j \in DOMAIN c.dst.jobs : \E f \in AllFiles(c.dst.jobs[j].dir, <<>>) : ~FAt(JobOf(c.src, j).dir, f.p).ex, "dst-only-file")
     \cup T(c.o.exclude.on /\ \E j \in sel : \E f \in AllFiles(c.src.jobs[j].dir, <<>>) : ExclPath(f.p, c.o), "excluded-src-file")
     \cup T(ProjLevel(c.o) /\ c.o.selection.on /\ \E j \in DOMAIN c.src.jobs : j \notin c.o.selection.ids, "unselected-src-job")
     \cup T(\E L \in dl : \E k \in (DOMAIN L.s.m) \cap (DOMAIN L.d.m) : L.s.m[k].t = "m" /\ L.s.m[k].m # <<>> /\ L.d.m[k].t = "s", "doc-map-over-plain")
     \cup T(\E L \in dl : \E k \in (DOMAIN L.s.m) \cap (DOMAIN L.d.m) : L.s.m[k].t = "m" /\ L.d.m[k].t = "m" /\
               \E q \in (DOMAIN L.s.m[k].m) \cap (DOMAIN L.d.m[k].m) : L.s.m[k].m[q].t # L.d.m[k].m[q].t, "doc-mixed-type-nested")
     \cup T(c.dst.pbak \/ \E j \in DOMAIN c.dst.jobs : BAKFN \in DOMAIN c.dst.jobs[j].dir.f, "stale-backup")
     \cup T(\E L \in dl : Confl(L.s.m, L.d.m, "") # {} /\ L.d # EmptyDoc /\
               (IF L.w = "project" THEN c.dst.pbak ELSE BAKFN \in DOMAIN c.dst.jobs[L.w].dir.f), "stale-backup-at-doc-conflict")
     \cup T(ProjLevel(c.o) /\ c.o.selection.on /\ DOMAIN c.src.jobs # {} /\ sel = {}, "empty-selection")
     \cup T(UsesIgnored(c), "dircmp-ignored-name")
     \cup T(\E j \in sel \cap DOMAIN c.dst.jobs : \E f \in AllFiles(c.src.jobs[j].dir, <<>>) : Len(f.p) = 1 /\ f.p[1] \in (SpLike \cup DocLike) \ {BAKFN},
            "special-like-name-top")
     \cup T(\E j \in sel \cap DOMAIN c.dst.jobs : \E f \in AllFiles(c.src.jobs[j].dir, <<>>) : Len(f.p) > 1 /\ Last(f.p) = SPFN /\ c.o.recursive
                 /\ SubSeq(f.p, 1, 1) \in AllDirs(c.dst.jobs[j].dir, <<>>), "special-name-nested-common-dir")
     \cup T(\E j \in sel \cap DOMAIN c.dst.jobs : \E f \in AllFiles(c.src.jobs[j].dir, <<>>) : Len(f.p) > 1 /\ Last(f.p) = SPFN /\ c.o.recursive
                 /\ ~(SubSeq(f.p, 1, 1) \in AllDirs(c.dst.jobs[j].dir, <<>>)), "special-name-nested-source-only-dir")
     \cup T(Cardinality(sel) > 1, "multi-job")

---------------------------------------------------------------------------
(* 3c. the state machines *)
VARIABLES c,      \* case / record index
          r,      \* gen: [viol, excused, feat, res] of the case (evaluated once per state); file: verdict of the record
          pend, cur, sres      \* steps mode: jobs not yet processed, destination so far, result so far
vars == <<c, r, pend, cur, sres>>
NoProj == [jobs |-> <<>>, pdoc |-> EmptyDoc, pbak |-> FALSE]
NoR == [viol |-> {}, excused |-> {}, feat |-> {}, res |-> "", why |-> "", tags |-> {}]

(* MODE = "file" (SyncTrace): SYNC_IN is NDJSON, one recorded real execution per line:
     {id, src, dst, o, post, res, fn, keys, cons, post2, res2, srcSame, srcAfter, rawSame, seqPost, seqRes}
   src/dst/post/post2/srcAfter/seqPost are Projects in the shapes of section 1 (raw os.walk + json observation, mtimes as ranks,
   everything written during the call = NOW); res is "ok" or the exception class, fn / keys the payload of FileSyncConflict /
   DocumentSyncConflict, cons the (job, path) pairs a custom strategy was asked about; post2/res2 the repeated call; srcSame / rawSame
   byte-identity of the raw source / destination snapshots; seqPost/seqRes the same case run with parallel=False.
   SYNC_OUT gets one verdict per record: why ("" = a behaviour of SyncFn, else the first failing conformance conjunct), the violated
   requirements of PROP with tags, and SyncFn's expectation when why # "". *)
RecsIn == IF IsFileMode THEN ndJsonDeserialize(IOEnv.SYNC_IN) ELSE <<>>
\* ndJsonDeserialize yields records; rebuild every mapping as a function so that it compares with the specification's values
RECURSIVE FixDir(_)
FixDir(d) == [f |-> [n \in DOMAIN d.f |-> d.f[n]], d |-> [n \in DOMAIN d.d |-> FixDir(d.d[n])]]
RECURSIVE FixDV(_)
FixDV(v) == [t |-> v.t, s |-> v.s, m |-> [k \in DOMAIN v.m |-> FixDV(v.m[k])]]
FixJob(j) == [sp |-> j.sp, dir |-> FixDir(j.dir), doc |-> FixDV(j.doc), dex |-> j.dex, dmt |-> j.dmt]
FixProj(P) == [jobs |-> [j \in DOMAIN P.jobs |-> FixJob(P.jobs[j])], pdoc |-> FixDV(P.pdoc), pbak |-> P.pbak]
FixEx(e) == [on |-> e.on, names |-> ToSet(e.names), sp |-> Opt(e, "sp", FALSE), doc |-> Opt(e, "doc", FALSE)]
FixSps(t) == [i \in DOMAIN t |-> [k \in DOMAIN t[i] |-> t[i][k]]]
FixCmd(m) == [m EXCEPT !.keysel = ToSet(m.keysel), !.exclude = FixEx(m.exclude), !.sel = [m.sel EXCEPT !.ids = ToSet(m.sel.ids)], !.sps = FixSps(m.sps)]
FixO(o) == [o EXCEPT !.custom = ToSet(o.custom), !.keysel = ToSet(o.keysel), !.exclude = FixEx(o.exclude),
                     !.selection = [on |-> o.selection.on, ids |-> ToSet(o.selection.ids)],
                     !.sps = [i \in DOMAIN o.sps |-> [k \in DOMAIN o.sps[i] |-> o.sps[i][k]]]]
RecX(i) == LET q == RecsIn[i]
               lib == [src |-> FixProj(q.src), dst |-> FixProj(q.dst), post |-> FixProj(q.post), res |-> q.res, fn |-> q.fn,
                       keys |-> ToSet(q.keys), cons |-> ToSet(q.cons), post2 |-> FixProj(q.post2), res2 |-> q.res2, srcSame |-> q.srcSame,
                       srcAfter |-> FixProj(q.srcAfter), rawSame |-> q.rawSame, seqPost |-> FixProj(q.seqPost), seqRes |-> q.seqRes]
           IN IF MODE = "clifile"
              THEN LET cmd == FixCmd(q.cmd) IN
                   lib @@ [cmd |-> cmd, o |-> CliOpts(cmd, lib.src, lib.dst, FALSE), exit |-> q.exit, skipped |-> ToSet(q.skipped), nstat |-> q.nstat]
              ELSE lib @@ [o |-> FixO(q.o), cmd |-> NoCmd]
CaseOf(i) == IF IsFileMode THEN RecX(i) ELSE GenCase(i)
NC == IF IsFileMode THEN Len(RecsIn) ELSE NCASE

EvalGen(i) == LET cs == GenCase(i)  x == MX(cs)  vs == Violated(x) IN
  [viol |-> vs, excused |-> Excused(cs), feat |-> Features(cs, x), res |-> x.res, why |-> "",
   tags |-> UNION {{[req |-> n, tag |-> t] : t \in Tags(n, x)} : n \in vs}]
EvalRec(i) == LET x == RecX(i)  vs == Violated(x) IN
  [viol |-> vs, excused |-> {}, feat |-> {}, res |-> x.res, why |-> ConfWhy(x),
   tags |-> UNION {{[req |-> n, tag |-> t] : t \in Tags(n, x)} : n \in vs}]

\* schema gate + project document: what happens before the per-job steps
Stage0(src, dst, o) == SyncFn(src, dst, [o EXCEPT !.selection = [on |-> TRUE, ids |-> {}]])

Init == /\ c \in 1..NC
        /\ IF MODE = "steps"
           THEN LET cs == GenCase(c)  s0 == Stage0(cs.src, cs.dst, cs.o) IN
                /\ ProjLevel(cs.o)
                /\ r = NoR /\ cur = s0.dst /\ sres = s0.res
                /\ pend = IF s0.res = "ok" THEN Selected(cs.src, cs.o) ELSE {}
           ELSE /\ r = IF IsFileMode THEN EvalRec(c) ELSE EvalGen(c)
                /\ pend = {} /\ cur = NoProj /\ sres = ""
\* one worker thread takes one job: any pending job, in any order (the model of parallel=True / parallel=N)
JobStepAct == \E j \in pend :
  LET cs == GenCase(c)  st == ProjStep(cs.src.jobs[j], cur, j, cs.o) IN
  /\ cur' = PutJob(cur, j, st) /\ sres' = st.res
  /\ pend' = IF st.res = "ok" THEN pend \ {j} ELSE {}
  /\ UNCHANGED <<c, r>>
Next == IF MODE = "steps" THEN JobStepAct ELSE UNCHANGED vars

\* requirement properties: checked by TLC on every generated case (or recorded execution)
Holds(n)  == n \notin r.viol \/ n \in r.excused        \* the requirement, except where a NAMED deviation explains the failure
Pure(n)   == n \notin r.viol                            \* the requirement itself
Superset == Holds("Superset")                   PureSuperset == Pure("Superset")
FilesArrive == Holds("FilesArrive")          PureFilesArrive == Pure("FilesArrive")
DstOnlyUntouched == Holds("DstOnlyUntouched") PureDstOnlyUntouched == Pure("DstOnlyUntouched")
SrcUntouched == Holds("SrcUntouched")        PureSrcUntouched == Pure("SrcUntouched")
Idempotent == Holds("Idempotent")            PureIdempotent == Pure("Idempotent")
NothingElse == Holds("NothingElse")          PureNothingElse == Pure("NothingElse")
OverwriteIffStrategy == Holds("OverwriteIffStrategy")   PureOverwriteIffStrategy == Pure("OverwriteIffStrategy")
ConflictLeavesFile == Holds("ConflictLeavesFile")       PureConflictLeavesFile == Pure("ConflictLeavesFile")
DocOverwriteIffKeyStrategy == Holds("DocOverwriteIffKeyStrategy")  PureDocOverwriteIffKeyStrategy == Pure("DocOverwriteIffKeyStrategy")
DocRollbackExact == Holds("DocRollbackExact")           PureDocRollbackExact == Pure("DocRollbackExact")
DryRunFrame == Holds("DryRunFrame")          PureDryRunFrame == Pure("DryRunFrame")
DeepByContent == Holds("DeepByContent")      PureDeepByContent == Pure("DeepByContent")
ExcludeFrame == Holds("ExcludeFrame")        PureExcludeFrame == Pure("ExcludeFrame")
SelectionFrame == Holds("SelectionFrame")    PureSelectionFrame == Pure("SelectionFrame")
\* an excuse must be needed only where a deviation is switched on
ExcusesOnlyWithDeviation == (~DryCopyRaises /\ ~DryCopytreeMkdirs /\ ~DryNestedDocWrites /\ ~ProjDeepDropped /\ ~CopytreeIgnoresExclude
                             /\ ~DircmpIgnoreList /\ ~DryJobNeedsDstDir /\ ~CloneExcludeHitsSpecial /\ ~SpecialByPrefix /\ ~CliFilterOnCwd) => r.excused = {}
\* OrderConfluent on the model: whatever order the workers take the jobs in, a sync that returns ends in SyncFn's destination
OrderConfluent == (MODE = "steps" /\ pend = {}) =>
  LET cs == GenCase(c)  R == SyncFn(cs.src, cs.dst, cs.o) IN (sres = "ok") = (R.res = "ok") /\ (sres = "ok" => cur = R.dst)

\* shown in TLC's error traces: the case itself and SyncFn's outcome (the harness replays counterexamples from it)
DebugAlias == LET cs == CaseOf(c)  x == MX(cs) IN
  [c |-> c, r |-> r, case |-> cs, model |-> [post |-> x.post, res |-> x.res, fn |-> x.fn, keys |-> x.keys, post2 |-> x.post2, res2 |-> x.res2]]

Export ==
  /\ TLCGet("level") >= 0
  /\ IF MODE \in {"gen", "cligen"}
     THEN ndJsonSerialize(IOEnv.SYNC_OUT, [i \in 1..NCASE |-> LET cs == GenCase(i) e == EvalGen(i) IN
              [id |-> OFFSET + i, src |-> cs.src, dst |-> cs.dst, o |-> cs.o, cmd |-> IF IsCli THEN cs.cmd ELSE NoCmd,
               pred |-> [res |-> e.res, viol |-> e.viol, excused |-> e.excused, tags |-> e.tags], feat |-> e.feat]])
     ELSE IF IsFileMode
     THEN ndJsonSerialize(IOEnv.SYNC_OUT, [i \in 1..NC |-> LET e == EvalRec(i) IN
              [id |-> RecsIn[i].id, why |-> e.why, viol |-> e.viol, tags |-> e.tags, abort |-> Abort(RecX(i)),
               exp |-> IF e.why = "" THEN [res |-> "", fn |-> "", keys |-> {}, dst |-> NoProj]
                       ELSE LET R == Run(RecX(i)) IN [res |-> ResName(R.res), fn |-> R.fn, keys |-> R.keys, dst |-> R.dst]]])
     ELSE TRUE
=============================================================================

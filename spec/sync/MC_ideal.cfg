\* requirement-level theorem: with every deviation switched off SyncFn satisfies the requirements
\* run: SYNC_OUT=/tmp/cases.ndjson [SYNC_IN=/tmp/recs.ndjson] tlc -workers 1 -seed N -config MC_ideal.cfg Sync.tla   (the drivers generate the same text)
CONSTANTS
  MODE = "gen"
  PROP = "C15"
  NCASE = 400
  FULLOPT = FALSE
  OFFSET = 0
  \* deviations of the pinned tree (TRUE = as the pinned tree); the drivers probe the real code and set them
  DryCopyRaises = FALSE
  DryCopytreeMkdirs = FALSE
  DryNestedDocWrites = FALSE
  ProjDeepDropped = FALSE
  CopytreeIgnoresExclude = FALSE
  DircmpIgnoreList = FALSE
  DryJobNeedsDstDir = FALSE
  CloneExcludeHitsSpecial = FALSE
  SpecialByPrefix = FALSE
  CliFilterOnCwd = FALSE
INIT Init
NEXT Next
INVARIANT DryRunFrame
INVARIANT DeepByContent
INVARIANT ExcludeFrame
INVARIANT SelectionFrame
INVARIANT ExcusesOnlyWithDeviation
POSTCONDITION Export
ALIAS DebugAlias
CHECK_DEADLOCK FALSE

\* OrderConfluent: per-job steps as separate actions (JobStepAct), every order explored = the model of parallel
\* run: SYNC_OUT=/tmp/cases.ndjson [SYNC_IN=/tmp/recs.ndjson] tlc -workers 1 -seed N -config MC_steps.cfg Sync.tla   (the drivers generate the same text)
CONSTANTS
  MODE = "steps"
  PROP = "C15"
  NCASE = 1500
  FULLOPT = FALSE
  OFFSET = 0
  \* deviations of the pinned tree (TRUE = as the pinned tree); the drivers probe the real code and set them
  DryCopyRaises = TRUE
  DryCopytreeMkdirs = TRUE
  DryNestedDocWrites = TRUE
  ProjDeepDropped = TRUE
  CopytreeIgnoresExclude = TRUE
  DircmpIgnoreList = TRUE
  DryJobNeedsDstDir = TRUE
  CloneExcludeHitsSpecial = TRUE
  SpecialByPrefix = TRUE
  CliFilterOnCwd = TRUE
INIT Init
NEXT Next
INVARIANT OrderConfluent
ALIAS DebugAlias
CHECK_DEADLOCK FALSE

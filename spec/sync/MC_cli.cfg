\* command line front end: TLC generates (projects, `signac sync` flags), checks the C15 requirements on CliFn = flags ; SyncFn, exports the cases (the driver runs 2 shards of 150)
\* run: SYNC_OUT=/tmp/cases.ndjson [SYNC_IN=/tmp/recs.ndjson] tlc -workers 1 -seed N -config MC_cli.cfg Sync.tla   (the drivers generate the same text)
CONSTANTS
  MODE = "cligen"
  PROP = "C15"
  NCASE = 150
  FULLOPT = FALSE
  OFFSET = 0
  \* deviations of the pinned tree (TRUE = as the pinned tree); the drivers probe the real code and set them
  DryCopyRaises = TRUE
  DryCopytreeMkdirs = TRUE
  DryNestedDocWrites = TRUE
  ProjDeepDropped = TRUE
  CopytreeIgnoresExclude = TRUE
  DircmpIgnoreList = TRUE
  DryJobNeedsDstDir = TRUE
  CloneExcludeHitsSpecial = TRUE
  SpecialByPrefix = TRUE
  CliFilterOnCwd = TRUE
INIT Init
NEXT Next
INVARIANT DryRunFrame
INVARIANT DeepByContent
INVARIANT ExcludeFrame
INVARIANT SelectionFrame
INVARIANT ExcusesOnlyWithDeviation
POSTCONDITION Export
ALIAS DebugAlias
CHECK_DEADLOCK FALSE

---------------------------- MODULE LinkedView ----------------------------
(* C17: a linked view is an exact, self-healing picture of the selected jobs.

   State machine.  ws = the jobs in the workspace (tokens of a small universe supplied by the harness: state
   points are flattened leaves  [k |-> key path, v |-> value atom]; values are OPAQUE atoms, Render maps a value
   atom to the atom of its Python text - trusted base, DESIGN 8).  view = what is below the view prefix:
   links = {[d |-> directory path, j |-> job]}  (a symbolic link  d/job -> workspace/<id of j>),  dirs = the
   directories (paths relative to the prefix, the prefix itself excluded).
   A path is a sequence of segments, a segment a sequence of text atoms (the harness concatenates their texts).

   CONFORMANT MODEL  = create_linked_view as the code does it: selection, separator check, path function
   (schema based / job id / custom specs with {{auto}}), link table, leaf-node check, then the incremental
   update: collect existing `job` entries, build the tree, colour it with the new link set, obsolete = dead
   branches deepest first, to_update = kept paths whose target changed, new; unlink/rmdir, relink.
   Named deviations of the pinned tree, one switch each (probed on the real code at start):
     DEVIATION D1 (FixedD1 = FALSE)  job_ids = [] on a non-empty project links the LAST LISTED job at ./job
     DEVIATION D2 (FixedD2 = FALSE)  schema-based / id paths that coincide (True vs "True") silently share one
                                      link: the last job in iteration order wins, the others get no link
     DEVIATION D3 (FixedD3 = FALSE)  a DIRECTORY called `job` (a state point key or value whose text is "job")
                                      is taken for an existing link; the next run tries to unlink/rmdir it
                                      and fails with OSError, possibly after having removed other entries,
                                      or leaves an emptied directory behind
     DEVIATION D4 (FixedD4 = FALSE)  the leaf/node check (a link path that is also a directory on another job's
                                      path) only looks at paths inserted EARLIER into the link table; with the
                                      deviation fixed the check is independent of the order
     DEVIATION D5 (FixedD5 = FALSE)  a link of the previous view that lies ON THE PATH of a new link (old a/1/job, new
                                      a/1/job/5/job) is coloured as a node and therefore kept; the new link's directories and
                                      the link itself are then created THROUGH it, inside the other job's directory (the
                                      next run fails with FileExistsError; a dangling link on the way gives FileNotFoundError)
   REQUIREMENT = Want(ws, view, args): if the selection is representable (every selected job has a path, the
   paths are distinct, no link path leads through another link, no separator in keys/values) then exactly one
   link per selected job at PathOf(job)/job plus the ancestor directories - the from-scratch tree - else
   RuntimeError and the view unchanged. *)
EXTENDS Naturals, Sequences, FiniteSets, TLC, SequencesExt, FiniteSetsExt, Randomization, Json, IOUtils

CONSTANTS JobSeq,     \* all job tokens of the universe, in canonical listing order
          SP,         \* [job -> set of [k : key path, v : value atom]]
          Render,     \* [value atom -> text atom]
          SepVals,    \* value atoms that are strings containing os.sep
          SepKeys,    \* key atoms containing os.sep
          KeyOrder,   \* all key paths, sorted as Python sorts the dotted key strings
          IdAtom,     \* [job -> text atom of its id]
          PathSpecs,  \* subset of {"auto", "id", "tree", "flat", "const", "cliauto"}
          CliMode,    \* TRUE: the actions are COMMAND LINES (`signac view ...`, one fresh process each), see ViewArgs
          CliFilters, \* the `-f key value` selections the command-line model uses: set of [k : key atom, v : value atom | "NOMATCH"]
          Orders,     \* subset of {"asc", "desc"}: directory listing order / order of job_ids
          SpecKey,    \* key atom K of the custom specs  "K/{K}/{{auto}}" (tree)  and  "K_{K}/{{auto:_}}" (flat)
          MaxInside,  \* CONSTRAINT of the graph runs while D5 is open: states with more entries inside job directories are not expanded
          MaxSubsets, \* job_ids selections per state: every subset of ws if there are at most MaxSubsets, else a random sample
          FixedD1, FixedD2, FixedD3, FixedD4, FixedD5

VARIABLES ws, view, inside, last
\* inside = what exists inside the job directories apart from the state point files ({[j |-> job, p |-> relative path]}).
\* The requirement (JobDirsUntouched): create_linked_view never changes it - a view consists of links TO job directories,
\* nothing is created THROUGH them. The harness snapshots the workspace after every step and compares with this variable.

Jobs    == {JobSeq[i] : i \in 1..Len(JobSeq)}
JOBSEG  == <<"JOB">>          \* the leaf name "job"
CURSEG  == <<"CUR">>          \* "." as it appears in the code's path strings
EmptyView == [links |-> {}, dirs |-> {}]

---------------------------------------------------------------------------
(* sequences / paths *)
Fro(p)        == SubSeq(p, 1, Len(p) - 1)
Pfx(a, b)       == Len(a) <= Len(b) /\ SubSeq(b, 1, Len(a)) = a
StrictPfx(a, b) == Len(a) < Len(b) /\ SubSeq(b, 1, Len(a)) = a
Pfxs(P)     == UNION {{SubSeq(p, 1, i) : i \in 1..Len(p)} : p \in P}   \* non-empty prefixes
Norm(p)         == SelectSeq(p, LAMBDA s : s # CURSEG)                    \* the file-system location of a code-level path
RECURSIVE Inter(_, _)
Inter(s, sep)   == IF Len(s) <= 1 THEN s ELSE <<s[1], sep>> \o Inter(Tail(s), sep)
KeySeg(k)       == Inter(k, "DOT")                                        \* dotted key as one segment
Rank(k)         == CHOOSE i \in 1..Len(KeyOrder) : KeyOrder[i] = k
InOrder(S, ord) == SelectSeq(IF ord = "asc" THEN JobSeq ELSE Reverse(JobSeq), LAMBDA j : j \in S)

---------------------------------------------------------------------------
(* state points and the schema-based path function (shared by the model and the requirement: PathOf) *)
HasLeaf(j, k)  == \E e \in SP[j] : e.k = k
ValAt(j, k)    == (CHOOSE e \in SP[j] : e.k = k).v
HasMapAt(j, k) == \E e \in SP[j] : StrictPfx(k, e.k)
AllKeys(J)     == {e.k : e \in UNION {SP[j] : j \in J}}
IdxVals(J, k)  == {ValAt(j, k) : j \in {i \in J : HasLeaf(i, k)}}
NIdx(J, k)     == Cardinality(IdxVals(J, k)) + (IF \E j \in J : HasMapAt(j, k) THEN 1 ELSE 0)
Const(J, k)    == NIdx(J, k) = 1 /\ \A j \in J : HasLeaf(j, k) \/ HasMapAt(j, k)
\* distinguishing keys, ordered by (number of distinct values, key)
VarKeys(J, excl) == SetToSortSeq({k \in AllKeys(J) : ~Const(J, k) /\ k \notin excl},
                                 LAMBDA x, y : NIdx(J, x) < NIdx(J, y) \/ (NIdx(J, x) = NIdx(J, y) /\ Rank(x) < Rank(y)))
Tokens(J, excl, j) == LET ks == SelectSeq(VarKeys(J, excl), LAMBDA k : HasLeaf(j, k)) IN
                      FlattenSeq([i \in 1..Len(ks) |-> <<KeySeg(ks[i]), <<Render[ValAt(j, ks[i])]>>>>])
Fail == [ok |-> FALSE, p |-> <<>>]
AutoPath(J, excl, j, sep) ==
  IF Cardinality(J) <= 1 THEN [ok |-> TRUE, p |-> <<>>]
  ELSE LET t == Tokens(J, excl, j) IN
       IF t = <<>> THEN Fail                                               \* "Unable to determine path for job"
       ELSE IF sep = "" THEN [ok |-> TRUE, p |-> t]
       ELSE [ok |-> TRUE, p |-> <<FlattenSeq(Inter(t, <<sep>>))>>]        \* one flat segment
PathFn(J, ps, j) ==
  LET K == <<SpecKey>> IN
  CASE ps = "auto"  -> AutoPath(J, {}, j, "")
    [] ps = "cliauto" -> AutoPath(J, {}, j, "")          \* the command line's default path argument is the STRING "{{auto}}"
    [] ps = "id"    -> [ok |-> TRUE, p |-> <<<<IdAtom[j]>>>>]
    [] ps = "const" -> [ok |-> TRUE, p |-> <<<<"ALL">>>>]
    [] ps = "tree"  -> IF ~HasLeaf(j, K) THEN Fail
                       ELSE LET a == AutoPath(J, {K}, j, "") IN
                            IF ~a.ok THEN Fail ELSE [ok |-> TRUE, p |-> <<<<SpecKey>>, <<Render[ValAt(j, K)]>>>> \o a.p]
    [] ps = "flat"  -> IF ~HasLeaf(j, K) THEN Fail
                       ELSE LET a == AutoPath(J, {K}, j, "US") IN
                            IF ~a.ok THEN Fail ELSE [ok |-> TRUE, p |-> <<<<SpecKey, "US", Render[ValAt(j, K)]>>>> \o a.p]
Custom(ps)  == ps \in {"tree", "flat", "const", "cliauto"}             \* str specs: evaluated and checked for uniqueness up front
SepFails(J) == \E j \in J : \E e \in SP[j] : e.k[1] \in SepKeys \/ (Len(e.k) = 1 /\ e.v \in SepVals)

---------------------------------------------------------------------------
(* REQUIREMENT: the declarative from-scratch target *)
SelJobs(w, a) == IF a.kind = "all" THEN w ELSE a.S
\* PathFn depends on constants only: tabulated once (a constant-level definition is evaluated once by TLC)
\* (TLCEval forces the lazily represented functions into tables)
PathTable == TLCEval([J \in SUBSET Jobs |-> TLCEval([ps \in PathSpecs |-> TLCEval([j \in J |-> PathFn(J, ps, j)])])])
PathOf(J, ps, j) == PathTable[J][ps][j]
LinkPath(J, ps, j) == Append(PathOf(J, ps, j).p, JOBSEG)
Representable(J, ps) ==
  /\ ~SepFails(J)
  /\ \A j \in J : PathOf(J, ps, j).ok
  /\ \A i, j \in J : i # j => LinkPath(J, ps, i) # LinkPath(J, ps, j)
  /\ \A i, j \in J : ~StrictPfx(LinkPath(J, ps, i), LinkPath(J, ps, j))
FromScratch(J, ps) == [links |-> {[d |-> PathOf(J, ps, j).p, j |-> j] : j \in J},
                       dirs  |-> Pfxs({PathOf(J, ps, j).p : j \in J})]
WantTable == TLCEval([J \in SUBSET Jobs |-> TLCEval([ps \in PathSpecs |->
                IF Representable(J, ps) THEN [rep |-> TRUE, view |-> FromScratch(J, ps)] ELSE [rep |-> FALSE, view |-> EmptyView]])])
Want(w, v, a) == LET t == WantTable[SelJobs(w, a)][a.ps] IN
                 IF t.rep THEN [res |-> "ok", view |-> t.view] ELSE [res |-> "RuntimeError", view |-> v]

---------------------------------------------------------------------------
(* CONFORMANT MODEL: the incremental algorithm *)
LinkAt(v, q)   == Len(q) >= 1 /\ Last(q) = JOBSEG /\ \E l \in v.links : l.d = Fro(q)
TargetAt(v, q) == (CHOOSE l \in v.links : l.d = Fro(q)).j
EmptyDir(v, q) == /\ ~\E l \in v.links : l.d = q
                  /\ ~\E d \in v.dirs : StrictPfx(q, d)
CanRemove(v, p) == LET q == Norm(p) IN LinkAt(v, q) \/ (q \in v.dirs /\ EmptyDir(v, q))     \* unlink, else rmdir
Rm(v, p)    == LET q == Norm(p) IN
                   IF LinkAt(v, q) THEN [v EXCEPT !.links = {l \in @ : l.d # Fro(q)}]
                   ELSE [v EXCEPT !.dirs = @ \ {q}]
RECURSIVE RemoveAll(_, _)
RemoveAll(v, P) == IF P = {} THEN v ELSE LET p == CHOOSE x \in P : TRUE IN RemoveAll(Rm(v, p), P \ {p})

\* _find_all_links: every directory that has a child called `job` (D3: whether that child is a link or not)
Existing(v, fixed3) ==
               LET withJob == {l.d : l \in v.links}
                              \cup (IF fixed3 THEN {} ELSE {d \in v.dirs \cup {<<>>} : Append(d, JOBSEG) \in v.dirs})     \* DEVIATION D3
               IN {Append(IF d = <<>> THEN <<CURSEG>> ELSE d, JOBSEG) : d \in withJob}

\* obsolete entries are processed deepest first; entries of equal depth in an order the code does not fix
RECURSIVE RunObs(_, _)
RunObs(v, rem) ==
  IF rem = {} THEN {[v |-> v, ok |-> TRUE]}
  ELSE LET m   == Max({Len(p) : p \in rem})
           lvl == {p \in rem : Len(p) = m} IN
       IF \A p \in lvl : CanRemove(v, p) THEN RunObs(RemoveAll(v, lvl), rem \ lvl)
       ELSE UNION {IF CanRemove(v, p) THEN RunObs(Rm(v, p), rem \ {p}) ELSE {[v |-> v, ok |-> FALSE]} : p \in lvl}

Out(res, v, ins, dev) == [res |-> res, view |-> v, inside |-> ins, dev |-> dev]
Orphans(v) == {d \in v.dirs : ~\E l \in v.links : Pfx(d, l.d)}          \* directories that lead to no link
Update(v, ins, w, links, dev, fixed3) ==     \* links : set of [p |-> code-level link path, j |-> job]
  LET newp   == {l.p : l \in links}
      jobOf(p) == (CHOOSE l \in links : l.p = p).j
      ex     == Existing(v, fixed3)
      inWay  == IF fixed3 THEN {p \in newp : Norm(p) \in v.dirs} ELSE {}       \* (a fixed implementation clears a directory where a link belongs)
      stale  == IF FixedD5 THEN {e \in ex : e \notin newp /\ \E p \in newp : StrictPfx(Norm(e), Norm(p))} ELSE {}  \* DEVIATION D5
      obs    == ((Pfxs(ex) \ Pfxs(newp)) \cup inWay \cup stale) \ {<<CURSEG>>}
  IN UNION {
       IF ~o.ok THEN {Out("OSError", o.v, ins, dev \cup {"D3"})}
       ELSE LET v1   == o.v
                keep == ex \cap newp
                tgt(p) == IF LinkAt(v1, Norm(p)) THEN TargetAt(v1, Norm(p)) ELSE "DIR"
                upd  == {p \in keep : tgt(p) # jobOf(p)}
                new  == newp \ keep
                updDirs == {p \in upd : tgt(p) = "DIR"}
            IN IF updDirs # {}          \* os.unlink on a directory: OSError, the other updates unlinked or not
               THEN {Out("OSError", RemoveAll(v1, done), ins, dev \cup {"D3"}) : done \in SUBSET (upd \ updDirs)}
               ELSE LET v2 == RemoveAll(v1, upd)
                        create == new \cup upd
                        \* links of the (remaining) view on the way to p's directory: mkdir -p and symlink go THROUGH the first one
                        way(p)  == {r \in Pfxs({Fro(Norm(p))}) : LinkAt(v2, r)}
                        esc     == {p \in create : way(p) # {}}
                        gate(p) == CHOOSE r \in way(p) : \A x \in way(p) : Len(r) <= Len(x)
                        host(p) == TargetAt(v2, gate(p))
                        rest(p) == SubSeq(Norm(p), Len(gate(p)) + 1, Len(Norm(p)))
                        fails(p) == p \in esc /\ (host(p) \notin w                                  \* dangling link on the way: FileNotFoundError
                                                  \/ [j |-> host(p), p |-> rest(p)] \in ins)     \* already there from an earlier run: FileExistsError
                        entries(p) == {[j |-> host(p), p |-> SubSeq(rest(p), 1, i)] : i \in 1..Len(rest(p))}
                        occupied(p) == p \notin esc /\ (LinkAt(v2, Norm(p)) \/ Norm(p) \in v2.dirs)
                        Made(P) == [links |-> v2.links \cup {[d |-> Fro(Norm(p)), j |-> jobOf(p)] : p \in P \ esc},
                                    dirs  |-> v2.dirs \cup Pfxs({Fro(Norm(p)) : p \in P \ esc})]
                        Ins(P)  == ins \cup UNION {entries(p) : p \in P \cap esc}
                        d5      == IF esc # {} THEN {"D5"} ELSE {}
                    IN IF \E p \in create : occupied(p)
                       THEN {Out("OSError", v2, ins, dev \cup {"EEXIST"})}      \* unreachable (invariant NoCreateFailure)
                       ELSE IF \E p \in create : fails(p)                     \* links are made in an order the code does not fix
                       THEN {Out("OSError", Made(done), Ins(done), dev \cup d5) : done \in SUBSET {p \in create : ~fails(p)}}
                       ELSE {Out("ok", Made(create), Ins(create), dev \cup d5)}
       : o \in RunObs(v, obs)}

Outcomes(w, v, ins, a) ==
  LET jobs == InOrder(SelJobs(w, a), a.ord)
      J    == SelJobs(w, a)
      Rej  == {Out("RuntimeError", v, ins, {})}
  IN IF SepFails(J) THEN Rej
     ELSE IF \E j \in J : ~PathOf(J, a.ps, j).ok THEN Rej
     ELSE LET lp(j) == LinkPath(J, a.ps, j)
              dup   == \E i, j \in J : i # j /\ lp(i) = lp(j)
          IN IF dup /\ (Custom(a.ps) \/ FixedD2) THEN Rej
             ELSE LET pos(p)  == {i \in 1..Len(jobs) : lp(jobs[i]) = p}
                      links0  == {[p |-> p, j |-> jobs[Max(pos(p))]] : p \in {lp(j) : j \in J}}          \* DEVIATION D2: last one wins
                      d1      == links0 = {} /\ w # {} /\ ~FixedD1
                      links   == IF d1 THEN {[p |-> <<CURSEG, JOBSEG>>, j |-> Last(InOrder(w, a.ord))]}  \* DEVIATION D1
                                 ELSE links0
                      dev     == (IF dup THEN {"D2"} ELSE {}) \cup (IF d1 THEN {"D1"} ELSE {})
                      \* _check_directory_structure_validity, in insertion order of the link table
                      first(p) == Min(pos(p))
                      leafnode == \E x, y \in links0 : StrictPfx(x.p, y.p) /\ (FixedD4 \/ first(x.p) > first(y.p))      \* DEVIATION D4
                  IN IF leafnode THEN Rej
                     ELSE IF FixedD3 THEN Update(v, ins, w, links, dev, TRUE)
                     ELSE IF Existing(v, FALSE) = Existing(v, TRUE)
                     THEN \* aftermath of D3: a directory orphaned by an earlier confused/aborted update is not part of the link
                          \* tree and is never collected (such pre-states are unreachable once D3 is fixed)
                          {IF Orphans(v) # {} /\ Orphans(o.view) # {} THEN [o EXCEPT !.dev = @ \cup {"D3"}] ELSE o
                           : o \in Update(v, ins, w, links, dev, FALSE)}
                     ELSE \* a directory called `job` is in play: whatever differs from the fixed algorithm is D3's doing
                          LET fixed == Update(v, ins, w, links, dev, TRUE) IN
                          {IF \E i \in fixed : i.res = o.res /\ i.view = o.view THEN o ELSE [o EXCEPT !.dev = @ \cup {"D3"}]
                           : o \in Update(v, ins, w, links, dev, FALSE)}

---------------------------------------------------------------------------
(* actions.  `last` is the observation variable of DESIGN 2.3: every step records what was called and what the model
   says happened (result class, deviations taken); an Idle step forgets it again, so the state graph has one node per
   (ws, view) plus one node per labelled transition - no blow-up, and every edge of the dump knows its arguments. *)
NoArgs == [kind |-> "none", S |-> {}, ps |-> "", ord |-> "", fk |-> "", fv |-> ""]
Idle   == [op |-> "idle", j1 |-> "", j2 |-> "", a |-> NoArgs, res |-> "ok", dev |-> {}]
Pow2(n) == IF n = 0 THEN 1 ELSE IF n = 1 THEN 2 ELSE IF n = 2 THEN 4 ELSE IF n = 3 THEN 8 ELSE IF n = 4 THEN 16 ELSE IF n = 5 THEN 32 ELSE 1000000
Subsets(w) == IF Pow2(Cardinality(w)) <= MaxSubsets THEN SUBSET w ELSE RandomSubset(MaxSubsets - 1, SUBSET w) \cup {{}}
\* job_ids is an ITERABLE of ids: a = [kind |-> "ids", S, ord] stands for every Python spelling of the same ids in the same order
\* (list, tuple, set, generator expression, iterator, map object, dict keys view, ids drawn lazily from a cursor); the harness
\* rotates the spellings over the edges, the expected outcome below does not depend on it
LibArgs(w)  == {[kind |-> "all", S |-> {}, ps |-> p, ord |-> o, fk |-> "", fv |-> ""] : p \in PathSpecs, o \in Orders}
               \cup {[kind |-> "ids", S |-> S, ps |-> p, ord |-> o, fk |-> "", fv |-> ""] : S \in Subsets(w), p \in PathSpecs, o \in Orders}
(* COMMAND LINE FRONT.  `signac view [-p PREFIX] [PATH] [-j ID ... | -f KEY VALUE]` is create_linked_view(prefix, path, job_ids = the
   ids the selection names) in a fresh process: the action is the SAME Outcomes operator applied to the selection the command
   denotes (S below is decided here, the harness only spells it as argv); without -j/-f every job of the workspace is named
   explicitly; PATH omitted means the string "{{auto}}" (spec "cliauto": the schema-based path, checked for uniqueness like every
   string spec).  What the user of the command is promised = the requirements of this module with res read as the EXIT STATUS:
   status 0 and the from-scratch tree of the selection, or status 1, a message on stderr, and the view (and every job
   directory) unchanged. *)
FilterSel(w, f) == IF f.v = "NOMATCH" THEN {} ELSE {j \in w : HasLeaf(j, <<f.k>>) /\ ValAt(j, <<f.k>>) = f.v}
CliArgs(w)  == {[kind |-> "cli_all", S |-> w, ps |-> p, ord |-> o, fk |-> "", fv |-> ""] : p \in PathSpecs, o \in Orders}
               \cup {[kind |-> "cli_ids", S |-> S, ps |-> p, ord |-> o, fk |-> "", fv |-> ""] : S \in Subsets(w) \ {{}}, p \in PathSpecs, o \in Orders}
               \cup {[kind |-> "cli_filter", S |-> FilterSel(w, f), ps |-> p, ord |-> o, fk |-> f.k, fv |-> f.v] : f \in CliFilters, p \in PathSpecs, o \in Orders}
CliExit(o)  == IF o.res = "ok" THEN 0 ELSE 1
ViewArgs(w) == IF CliMode THEN CliArgs(w) ELSE LibArgs(w)

Add(j)       == /\ ws' = ws \cup {j} /\ UNCHANGED <<view, inside>>
                /\ last' = [Idle EXCEPT !.op = "add", !.j1 = j]
Remove1(j)   == /\ ws' = ws \ {j} /\ UNCHANGED view /\ inside' = {x \in inside : x.j # j}                  \* the directory goes with its content
                /\ last' = [Idle EXCEPT !.op = "remove", !.j1 = j]
Rekey(j, j2) == /\ ws' = (ws \ {j}) \cup {j2} /\ UNCHANGED view
                /\ inside' = {IF x.j = j THEN [x EXCEPT !.j = j2] ELSE x : x \in inside}                      \* the directory is renamed
                /\ last' = [Idle EXCEPT !.op = "rekey", !.j1 = j, !.j2 = j2]
CreateView(a, o) == /\ view' = o.view /\ inside' = o.inside /\ UNCHANGED ws
                    /\ last' = [Idle EXCEPT !.op = "view", !.a = a, !.res = o.res, !.dev = o.dev]
Forget == last' = Idle /\ UNCHANGED <<ws, view, inside>>

Init == ws = {} /\ view = EmptyView /\ inside = {} /\ last = Idle
Step == \/ \E j \in Jobs \ ws : Add(j)
        \/ \E j \in ws : Remove1(j)
        \/ \E j \in ws : \E j2 \in Jobs \ ws : Rekey(j, j2)
        \/ \E a \in ViewArgs(ws) : \E o \in Outcomes(ws, view, inside, a) : CreateView(a, o)
Next == IF last.op = "idle" THEN Step ELSE Forget
InsideBound == Cardinality(inside) <= MaxInside
Level1 == TLCGet("level") <= 1      \* CONSTRAINT of the run that only exports the target table

\* the declarative target of every selection x path spec, exported for the harness (POSTCONDITION)
WantRow(J, ps) == LET t == WantTable[J][ps] IN
                  [S |-> SetToSeq(J), ps |-> ps, rep |-> t.rep, links |-> SetToSeq(t.view.links), dirs |-> SetToSeq(t.view.dirs)]
Export == /\ TLCGet("level") >= 0
          /\ ndJsonSerialize(IOEnv.WANT_OUT, SetToSeq({WantRow(J, ps) : J \in SUBSET Jobs, ps \in PathSpecs}))

---------------------------------------------------------------------------
(* what TLC checks: in every reachable state, for EVERY argument tuple and every outcome of CreateView *)
WellFormed(v) == /\ \A l \in v.links : l.d = <<>> \/ l.d \in v.dirs
                 /\ \A d \in v.dirs : Len(d) >= 1 /\ (Len(d) = 1 \/ Fro(d) \in v.dirs)
                 /\ \A l \in v.links : ~\E d \in v.dirs : Pfx(Append(l.d, JOBSEG), d)            \* nothing below a link
                 /\ \A l1, l2 \in v.links : l1.d = l2.d => l1 = l2
TypeOK == ws \subseteq Jobs /\ WellFormed(view) /\ \A x \in inside : x.j \in ws

Checks(a, o) ==     \* names of the requirements violated by outcome o of CreateView(a) in the current state
  LET w == Want(ws, view, a) IN
  (IF o.res = "ok" /\ ~(w.res = "ok" /\ o.view = w.view) THEN {"ViewEqualsFromScratch"} ELSE {})
  \cup (IF o.res = "ok" /\ \E l \in o.view.links : l.j \notin SelJobs(ws, a) THEN {"NoDangling"} ELSE {})
  \cup (IF o.res = "ok" /\ \E d \in o.view.dirs : ~\E l \in o.view.links : Pfx(d, l.d) THEN {"NoEmptyDirs"} ELSE {})
  \cup (IF (o.res # "ok" /\ ~(o.res = "RuntimeError" /\ o.view = view /\ w.res = "RuntimeError"))
           \/ (w.res = "RuntimeError" /\ o.res = "ok") THEN {"RejectFrame"} ELSE {})
  \cup (IF "EEXIST" \in o.dev \/ ~WellFormed(o.view) THEN {"NoCreateFailure"} ELSE {})
  \cup (IF o.inside # inside THEN {"JobDirsUntouched"} ELSE {})
\* in the state right after a successful CreateView(a): the same call again changes nothing, and a from-scratch build
\* (same call on an empty view) gives the same tree
After == IF last.op = "view" /\ last.res = "ok"
         THEN (IF \E x \in Outcomes(ws, view, inside, last.a) : ~(x.res = "ok" /\ x.view = view) THEN {"SecondRunNoop"} ELSE {})
              \cup (IF \E x \in Outcomes(ws, EmptyView, inside, last.a) : ~(x.res = "ok" /\ x.view = view) THEN {"IncrementalEqualsScratch"} ELSE {})
         ELSE {}
Violated == IF last.op = "idle" THEN UNION {UNION {Checks(a, o) : o \in Outcomes(ws, view, inside, a)} : a \in ViewArgs(ws)} ELSE After
Requirements == Violated = {}
\* ALIAS for error traces: which requirements fail in the last state, and one witness argument tuple for each
Shown == [ws |-> ws, view |-> view, inside |-> inside, last |-> last,
          violated |-> IF last.op = "idle"
                       THEN {<<n, CHOOSE a \in ViewArgs(ws) : \E o \in Outcomes(ws, view, inside, a) : n \in Checks(a, o)>> : n \in Violated}
                       ELSE {<<n, last.a>> : n \in Violated}]
=============================================================================

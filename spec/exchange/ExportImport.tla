---------------------------- MODULE ExportImport ----------------------------
(* C16: export_to followed by import_from reproduces the project - or the call raises before any job
   has been copied; nothing is dropped, merged or misplaced.

   Two layers, kept apart on purpose:

   REQUIREMENT side (what must happen, independent of the code):
     Accept(paths)       <=> Injective /\ PrefixFree /\ Beneath  (on normalised path components; no leaf/node
                         conflict, nothing leaves the target)
     IdealRoundTrip      the tree written by an ideal export, read back by "every top-most directory
                         holding a state point file is that job", is the project again
     AcceptExact         THEOREM (checked by TLC on every case)  Accept <=> IdealRoundTrip
     Requirement         outcome of export+import is RoundTripOK \/ RaisedCleanly
     RejectBeforeCopy    a map that is not accepted is rejected before any job is copied
     ExportFrame         nothing is written outside the target          ImportFrame   nothing outside job directories
     NeverOverwrite      a job that exists in the importing project is never written to
     SchemaParseBack     a schema string parses back the layout it describes

   CONFORMANT side (what signac does, written like signac/import_export.py, including its defects as
   named deviations, each removable by a flag so that a repaired tree is modelled by FixDn = TRUE):
     Index, AutoPaths    _build_job_statepoint_index + _make_schema_based_path_function
     PathsOf             _make_path_function (None / False / format string with {{auto}} / callable)
     ExportOf            _check_path_function_unique, _check_directory_structure_validity, the writers
     ImportOf            _analyze_{directory,zipfile,tarfile}_for_import + the copy executors
     \* DEVIATION D1: zip import decides "is below" with str.startswith: a/1 swallows a/10, a/1.0 ...
     \* DEVIATION D2: archives: a job exported at the archive root ("" - every single-job export) is not found
     \* DEVIATION D3: the uniqueness check is skipped for path=None (True/"True", 1/"1" collide)
     \* DEVIATION D4: the leaf/node check only sees prefixes of EARLIER paths (listing-order dependent)
     \* DEVIATION D5: a path that leaves the target ("a/../../e" from the value "../../e") is not rejected

   Generator spec: every initial state is one case = (jobs in directory-listing order, path spec).
   The listing order is the nondeterministic choice: every permutation of every job set is a case.
   TLC evaluates the theorems on every case and exports, per case, the expected path map and the expected
   outcome for every target kind; the driver executes the real code and compares.

   Text is sequences of code points (TLC cannot look inside strings).  Python's str() of a value and the
   job ids are tables supplied by the harness (trusted base: float repr / int str / md5, see C01). *)
EXTENDS JsonValue, TLC, Json, IOUtils, FiniteSetsExt

CONSTANTS MODE,      \* "describe" (export the universe) | "universe" (enumerate) | "file" (cases from the harness)
          MAXJOBS,   \* universe mode: all projects of 0..MAXJOBS jobs, all listing orders, all path specs
          PART, NPARTS,  \* universe mode is split over NPARTS TLC processes (job sets with SumSet(S) % NPARTS = PART)
          FixD1, FixD2, FixD3, FixD4, FixD5,
          BoolIntShareKey   \* calibrated rule (C06/C18 territory): TRUE = the search index files True under 1 and False under 0

Flags == [d1 |-> FixD1, d2 |-> FixD2, d3 |-> FixD3, d4 |-> FixD4, d5 |-> FixD5]
AllFixed == [d1 |-> TRUE, d2 |-> TRUE, d3 |-> TRUE, d4 |-> TRUE, d5 |-> TRUE]

-----------------------------------------------------------------------------
(* text *)
SL  == 47      \* "/"
DOT == 46
tA == <<97>>  tAB == <<97, 98>>  tB == <<98>>  tN == <<110>>  tX == <<120>>  tZ == <<122>>

StrPrefix(p, q) == Len(p) <= Len(q) /\ SubSeq(q, 1, Len(p)) = p
RECURSIVE SplitOn(_, _)        \* Python's s.split(c)
SplitOn(s, c) == LET I == {i \in 1..Len(s) : s[i] = c} IN
                 IF I = {} THEN <<s>>
                 ELSE LET i == Min(I) IN <<SubSeq(s, 1, i - 1)>> \o SplitOn(SubSeq(s, i + 1, Len(s)), c)
JoinSL(cs) == JoinSeqs(cs, <<SL>>)
RECURSIVE NormFold(_, _)       \* posixpath.normpath on a relative path, as components
NormFold(ps, acc) ==
  IF ps = <<>> THEN acc
  ELSE LET p == Head(ps) IN
       IF p = <<>> \/ p = <<DOT>> THEN NormFold(Tail(ps), acc)
       ELSE IF p = <<DOT, DOT>> /\ acc # <<>> /\ acc[Len(acc)] # <<DOT, DOT>>
            THEN NormFold(Tail(ps), SubSeq(acc, 1, Len(acc) - 1))
            ELSE NormFold(Tail(ps), Append(acc, p))
NormComps(s) == NormFold(SplitOn(s, SL), <<>>)
NormPath(s)  == IF NormComps(s) = <<>> THEN <<DOT>> ELSE JoinSL(NormComps(s))
CompPrefix(P, Q) == Len(P) <= Len(Q) /\ SubSeq(Q, 1, Len(P)) = P
Escapes(C) == C # <<>> /\ C[1] = <<DOT, DOT>>        \* the normalised path leaves the directory it is relative to
DirName(s) == LET c == NormComps(s) IN IF c = <<>> THEN <<>> ELSE JoinSL(SubSeq(c, 1, Len(c) - 1))
\* "s lies at or below q", decided on components but written on normalised strings (what a fixed zip import does)
SubPath(q, s) == q = <<>> \/ q = s \/ StrPrefix(q \o <<SL>>, s)
OsJoin2(a, b) == IF b # <<>> /\ b[1] = SL THEN b
                 ELSE IF a = <<>> \/ a[Len(a)] = SL THEN a \o b ELSE a \o <<SL>> \o b
RECURSIVE OsJoin(_)            \* os.path.join(*tokens), Len(tokens) >= 1
OsJoin(ts) == IF Len(ts) = 1 THEN ts[1] ELSE OsJoin(<<OsJoin2(ts[1], ts[2])>> \o SubSeq(ts, 3, Len(ts)))
IsDigit(c) == c \in 48..57
IsWord(c)  == IsDigit(c) \/ c \in 65..90 \/ c \in 97..122 \/ c = 95
Lower(s)   == [i \in 1..Len(s) |-> IF s[i] \in 65..90 THEN s[i] + 32 ELSE s[i]]

-----------------------------------------------------------------------------
(* tables supplied by the harness: Python str() of every leaf value, job id of every universe state point *)
Tab == IF MODE = "describe" THEN <<>> ELSE ndJsonDeserialize(IOEnv.C16_TABLES)
RenderIdx == {i \in 1..Len(Tab) : Tab[i].k = "render"}
RenderFn  == [v \in {FromWire(Tab[i].v) : i \in RenderIdx} |->
                Tab[CHOOSE i \in RenderIdx : FromWire(Tab[i].v) = v].r]
Render(v) == RenderFn[v]
\* text of the payload name tokens (unusual but legal file and directory names; opaque to the spec except for their
\* code points, which decide prefix relations and the order in which archive members are sorted)
NameIdx == {i \in 1..Len(Tab) : Tab[i].k = "name"}
NameTxt == [t \in {Tab[i].tok : i \in NameIdx} |-> Tab[CHOOSE i \in NameIdx : Tab[i].tok = t].r]

-----------------------------------------------------------------------------
(* the universe: state points chosen to collide textually *)
M1(k, v) == JMap(k :> v)
M2(k1, v1, k2, v2) == JMap(k1 :> v1 @@ k2 :> v2)
sTrue == <<84, 114, 117, 101>>
Universe == <<
  M1(tA, JInt(1)), M1(tA, JInt(10)), M1(tA, JInt(100)),                  \*  1  2  3   1 / 10 / 100
  M1(tA, JFlt(<<49, 46, 48>>)), M1(tA, JStr(<<49>>)),                      \*  4  5      1.0 / "1"
  M1(tA, JBool(TRUE)), M1(tA, JStr(sTrue)),                                \*  6  7      true / "True"
  M1(tAB, JInt(1)), M1(tAB, JInt(10)),                                     \*  8  9      key ab (a is a prefix)
  M1(tN, M1(tX, JInt(1))), M1(tN, M1(tX, JInt(10))),                       \* 10 11      nested n.x
  M2(tA, JInt(1), tZ, JInt(2)), M2(tA, JInt(2), tZ, JInt(3)),              \* 12 13      heterogeneous: a / a,z
  M2(tA, JInt(1), tAB, JInt(1)), M2(tA, JInt(10), tN, M1(tX, JInt(1))),    \* 14 15
  M1(tA, JStr(<<120, 32, 121>>)), M1(tA, JStr(<<120, 46, 121>>)),          \* 16 17      "x y"  "x.y"
  M1(tA, JStr(<<120, 47, 121>>)), M1(tA, JStr(<<120>>)),                   \* 18 19      "x/y"  "x"
  M2(tA, JInt(1), tB, JStr(<<117>>)), M2(tA, JInt(10), tB, JStr(<<119>>)), \* 20 21      homogeneous two keys
  M1(tA, JFlt(<<48, 46, 53>>)), M1(tA, JBool(FALSE)),                      \* 22 23      0.5 / false
  M1(tA, JStr(<<120, 95, 49>>)),                                           \* 24         "x_1"
  M1(tA, JStr(<<DOT, DOT, SL, DOT, DOT, SL, 101>>)) >>                     \* 25         "../../e"  (a/../../e = ../e)
NU == Len(Universe)

RECURSIVE Flat(_, _)           \* _nested_dicts_to_dotted_keys: {<<key path, leaf>>}
Flat(v, pre) == IF v.t = "map" /\ DOMAIN v.m # {}
                THEN UNION {Flat(v.m[k], Append(pre, k)) : k \in DOMAIN v.m}
                ELSE IF pre = <<>> THEN {} ELSE {<<pre, v>>}
RECURSIVE Lookup(_, _)         \* v[n1][n2]... ; KeyError / TypeError -> not ok
Lookup(v, kp) == IF kp = <<>> THEN [ok |-> TRUE, v |-> v]
                 ELSE IF v.t = "map" /\ Head(kp) \in DOMAIN v.m THEN Lookup(v.m[Head(kp)], Tail(kp))
                 ELSE [ok |-> FALSE, v |-> JNull]
Dotted(kp) == JoinSeqs(kp, <<DOT>>)
Leaves == UNION {{e[2] : e \in Flat(Universe[u], <<>>)} : u \in 1..NU}

-----------------------------------------------------------------------------
(* path specifications: None, False, format strings (with {{auto}} variants), callables.
   A format string / callable is a sequence of segments; the driver renders the same segments as Python. *)
Lit(t)    == [k |-> "lit",     t |-> t,    kp |-> <<>>]
Fld(kp)   == [k |-> "field",   t |-> <<>>, kp |-> kp]      \* {a}  {n.x}
SpF(kp)   == [k |-> "spfield", t |-> <<>>, kp |-> kp]      \* {job.sp.a}
JId       == [k |-> "id",      t |-> <<>>, kp |-> <<>>]    \* {job.id}
Auto(sep) == [k |-> "auto",    t |-> sep,  kp |-> <<>>]    \* {{auto}}  {{auto:_}}
Get(kp, d) == [k |-> "get",    t |-> d,    kp |-> kp]      \* str(job.sp.get(k, d))   (callables only)
PathSpecs == <<
  [name |-> "None",                  kind |-> "none",  segs |-> <<>>],
  [name |-> "False",                 kind |-> "false", segs |-> <<>>],
  [name |-> "{{auto}}",              kind |-> "str",   segs |-> <<Auto(<<>>)>>],
  [name |-> "{{auto:_}}",            kind |-> "str",   segs |-> <<Auto(<<95>>)>>],
  [name |-> "a/{a}",                 kind |-> "str",   segs |-> <<Lit(<<97, SL>>), Fld(<<tA>>)>>],
  [name |-> "a_{a}/{{auto}}",        kind |-> "str",   segs |-> <<Lit(<<97, 95>>), Fld(<<tA>>), Lit(<<SL>>), Auto(<<>>)>>],
  [name |-> "x/{job.sp.a}/{{auto}}", kind |-> "str",   segs |-> <<Lit(<<120, SL>>), SpF(<<tA>>), Lit(<<SL>>), Auto(<<>>)>>],
  [name |-> "nx_{n.x}",              kind |-> "str",   segs |-> <<Lit(<<110, 120, 95>>), Fld(<<tN, tX>>)>>],
  [name |-> "id/{job.id}",           kind |-> "str",   segs |-> <<Lit(<<105, 100, SL>>), JId>>],
  [name |-> "fn:j/<id>",             kind |-> "fn",    segs |-> <<Lit(<<106, SL>>), JId>>],
  [name |-> "fn:k/<a|none>",         kind |-> "fn",    segs |-> <<Lit(<<107, SL>>), Get(<<tA>>, <<110, 111, 110, 101>>)>>],
  [name |-> "fn:c",                  kind |-> "fn",    segs |-> <<Lit(<<99>>)>>] >>

-----------------------------------------------------------------------------
(* the automatic path, following _build_job_statepoint_index / _make_schema_based_path_function.
   J is the sequence of jobs in the order in which the workspace directory lists them.
   Index(J) is the search index of the code, built once per project: for every dotted key
     scal  jobs holding a non-dict value under the key      dict  jobs holding a dict (the _DictPlaceholder)
     rep   job -> first listed job whose value is the same Python dict key (first inserted spelling wins)
     len   len(indexes[key])  (number of distinct dict keys, placeholder included)
     const the key is excluded by exclude_const *)
KeyPaths(J) == UNION {{e[1] : e \in Flat(J[i].sp, <<>>)} : i \in 1..Len(J)}
Num(v)      == IF v.t = "bool" THEN (IF v.b THEN 1 ELSE 0) ELSE v.n
\* as the code: index keys are Python dict keys; floats are kept apart from ints (_float); in the tree as pinned
\* True == 1 and False == 0 share a key (BoolIntShareKey), a later tree keeps bools apart as well (_bool)
DictEq(v, w) == IF BoolIntShareKey /\ v.t \in {"bool", "int"} /\ w.t \in {"bool", "int"} THEN Num(v) = Num(w) ELSE v = w
Index(J) ==
  LET n  == Len(J)
      KP == KeyPaths(J)
      look == [kp \in KP |-> [i \in 1..n |-> Lookup(J[i].sp, kp)]]
      scal == [kp \in KP |-> {i \in 1..n : look[kp][i].ok /\ look[kp][i].v.t # "map"}]
      dict == [kp \in KP |-> {i \in 1..n : look[kp][i].ok /\ look[kp][i].v.t = "map"}]
      rep  == [kp \in KP |-> [i \in scal[kp] |-> Min({j \in scal[kp] : DictEq(look[kp][j].v, look[kp][i].v)})]]
      len  == [kp \in KP |-> Cardinality({rep[kp][i] : i \in scal[kp]}) + (IF dict[kp] # {} THEN 1 ELSE 0)]
  IN [kp \in KP |-> [scal |-> scal[kp], rep |-> rep[kp], len |-> len[kp], val |-> [i \in 1..n |-> look[kp][i].v],
                     const |-> len[kp] = 1 /\ (scal[kp] = 1..n \/ dict[kp] = 1..n)]]
\* sorted(indexes, key=lambda key: (len(indexes[key]), key)), constant and excluded keys dropped
AutoKeys(ix, excl) == SetToSortSeq({kp \in DOMAIN ix : ~ix[kp].const /\ Dotted(kp) \notin excl},
                                   LAMBDA x, y : \/ ix[x].len < ix[y].len
                                                 \/ ix[x].len = ix[y].len /\ LexLess(Dotted(x), Dotted(y)))
Fail == [ok |-> FALSE, s |-> <<>>]
Ok(s) == [ok |-> TRUE, s |-> s]
\* the automatic path of every job: tokens key, str(value) for every non-constant key the job has
AutoPaths(J, ix, sep, excl) ==
  LET n  == Len(J)
      ks == AutoKeys(ix, excl)
      tok(i) == FlattenSeq([t \in 1..Len(ks) |->
                   IF i \in ix[ks[t]].scal THEN <<Dotted(ks[t]), Render(ix[ks[t]].val[ix[ks[t]].rep[i]])>> ELSE <<>>])
  IN [i \in 1..n |-> IF n <= 1 THEN Ok(<<>>)
                     ELSE LET tk == tok(i) IN
                          IF tk = <<>> THEN Fail                   \* "Unable to determine path" (heterogeneous schema)
                          ELSE Ok(NormPath(IF sep = <<>> THEN OsJoin(tk) ELSE JoinSeqs(tk, sep)))]

EvalSeg(J, i, seg) ==
  LET l == Lookup(J[i].sp, seg.kp) IN
  CASE seg.k = "lit"  -> Ok(seg.t)
    [] seg.k = "id"   -> Ok(J[i].id)
    [] seg.k = "get"  -> IF l.ok THEN Ok(Render(l.v)) ELSE Ok(seg.t)
    [] OTHER          -> IF l.ok /\ l.v.t # "map" THEN Ok(Render(l.v)) ELSE Fail      \* KeyError / AttributeError
\* the path function applied to every job: sequence of [ok, s]
PathsOf(J, ps) ==
  LET n  == Len(J)
      ix == Index(J)
  IN CASE ps.kind = "none"  -> AutoPaths(J, ix, <<>>, {})
       [] ps.kind = "false" -> [i \in 1..n |-> Ok(J[i].id)]
       [] OTHER -> LET m == Len(ps.segs)
                       excl == {Dotted(ps.segs[t].kp) : t \in {t \in 1..m : ps.segs[t].k = "field"}}
                       ev == [t \in 1..m |-> IF ps.segs[t].k = "auto" THEN AutoPaths(J, ix, ps.segs[t].t, excl)
                                             ELSE [i \in 1..n |-> EvalSeg(J, i, ps.segs[t])]]
                   IN [i \in 1..n |-> IF \A t \in 1..m : ev[t][i].ok
                                      THEN Ok(FlattenSeq([t \in 1..m |-> ev[t][i].s])) ELSE Fail]

-----------------------------------------------------------------------------
(* REQUIREMENT side *)
Accept(C) == /\ \A i, j \in 1..Len(C) : i # j => ~CompPrefix(C[i], C[j])   \* injective and prefix-free
             /\ \A i \in 1..Len(C) : ~Escapes(C[i])                          \* and beneath the target
\* payload below a job directory, with the real directory names (they decide the order in which archives are scanned):
\*   nested:  sub/deep/f.txt  sub/g.bin
\*   embed :  state point files that are DATA, not jobs: sub/signac_statepoint.json (foreign state point, depth 1),
\*            emb/two/signac_statepoint.json (depth 2; embed = "self": the job's own state point, "foreign": another one),
\*            inner/workspace/<32 zeros>/{signac_statepoint.json, payload.dat} (an embedded foreign job directory, depth 3)
tSub == <<115, 117, 98>>  tDeep == <<100, 101, 101, 112>>  tEmb == <<101, 109, 98>>  tTwo == <<116, 119, 111>>
tInner == <<105, 110, 110, 101, 114>>  tWs == <<119, 111, 114, 107, 115, 112, 97, 99, 101>>  tZeros == [k \in 1..32 |-> 48]
\*   odd   :  unusual-but-legal names, as tokens whose text the harness supplies (NameTxt):
\*            <file token> for every FileToks, <dir token>/in.txt for every DirToks, odd2/<file token> for every Deep2Toks
FileToks == {"f_emoji", "f_math", "f_cjkb", "f_ffff", "f_fffd", "f_eacute", "f_cjk", "f_space", "f_dot", "f_tilde", "f_tdot",
             "f_long", "f_a", "f_a_dot_b", "f_a_space_b", "f_ab", "f_before_sp", "f_after_sp"}
DirToks  == {"d_emoji", "d_math", "d_ffff", "d_eacute", "d_space", "d_dot", "d_tilde", "d_tdot", "d_long", "d_b", "d_b_dot_c", "d_b_space_c", "d_bc"}
Deep2Toks == {"f_emoji", "f_math", "f_ffff", "f_cjk", "f_space", "f_dot", "f_long", "f_a", "f_a_dot_b", "f_after_sp"}
tOdd2 == <<111, 100, 100, 50>>  tIn == <<105, 110, 46, 116, 120, 116>>          \* "odd2"  "in.txt"
OddDirs  == {<<NameTxt[t]>> : t \in DirToks} \cup {<<tOdd2>>}
OddFiles == {<<NameTxt[t]>> : t \in FileToks} \cup {<<NameTxt[t], tIn>> : t \in DirToks} \cup {<<tOdd2, NameTxt[t]>> : t \in Deep2Toks}
DirsOf(job) == {<<>>} \cup (IF job.odd THEN OddDirs ELSE {}) \cup (IF job.nested THEN {<<tSub>>, <<tSub, tDeep>>} ELSE {})
                      \cup (IF job.embed # "none" THEN {<<tSub>>, <<tEmb>>, <<tEmb, tTwo>>, <<tInner>>, <<tInner, tWs>>, <<tInner, tWs, tZeros>>} ELSE {})
SpDirsOf(job) == {<<>>} \cup (IF job.embed # "none" THEN {<<tSub>>, <<tEmb, tTwo>>, <<tInner, tWs, tZeros>>} ELSE {})
\* the directory holds the job's own state point; all other ones hold a foreign state point (each a different one)
SelfSp(job, d) == d = <<>> \/ (job.embed = "self" /\ d = <<tEmb, tTwo>>)
\* files of a job; file names are components that cannot clash with any path component (code points 0..6; <<0>> = state point file)
fSP == <<<<0>>>>  fDOC == <<<<1>>>>  fTOP == <<<<2>>>>  fNEST == <<<<3>>, <<4>>, <<5>>>>
FilesOf(job) == {fSP, fTOP} \cup (IF job.doc THEN {fDOC} ELSE {}) \cup (IF job.nested THEN {fNEST} ELSE {})
                \cup (IF job.embed # "none" THEN {d \o <<<<0>>>> : d \in SpDirsOf(job) \ {<<>>}} \cup {<<tInner, tWs, tZeros, <<6>>>>} ELSE {})
                \cup (IF job.odd THEN OddFiles ELSE {})
IdealTree(J, C) == {<<C[i] \o f, i>> : <<i, f>> \in UNION {{<<i, f>> : f \in FilesOf(J[i])} : i \in 1..Len(J)}}
IdealRoundTrip(J, C) ==
  LET tree == IdealTree(J, C)
      spDirs == {SubSeq(e[1], 1, Len(e[1]) - 1) : e \in {e \in tree : e[1][Len(e[1])] = <<0>>}}
      top == {d \in spDirs : ~\E q \in spDirs : q # d /\ CompPrefix(q, d)}
      below(d) == {<<SubSeq(e[1], Len(d) + 1, Len(e[1])), e[2]>> : e \in {e \in tree : CompPrefix(d, e[1])}}
  IN \A i \in 1..Len(J) : ~Escapes(C[i]) /\ C[i] \in top /\ below(C[i]) = {<<f, i>> : f \in FilesOf(J[i])}

-----------------------------------------------------------------------------
(* CONFORMANT side: export *)
PathPrefixes(s) == LET tk == SplitOn(s, SL) IN {JoinSL(SubSeq(tk, 1, k)) : k \in 1..(Len(tk) - 1)}
CheckAsCode(P) == \E i \in 1..Len(P) : P[i] \in UNION {PathPrefixes(P[j]) : j \in 1..(i - 1)}   \* DEVIATION D4
CheckFixed(P)  == \E i, j \in 1..Len(P) : P[i] \in PathPrefixes(P[j])

ExportOf(J, pr, pskind, kind, F) ==        \* pr = PathsOf(J, ps)
  LET n  == Len(J)
      P  == [i \in 1..n |-> pr[i].s]
      C  == [i \in 1..n |-> NormComps(P[i])]
      dup  == \E i, j \in 1..n : i < j /\ P[i] = P[j]
      uniq == pskind \in {"str", "fn"} \/ F.d3                                                \* DEVIATION D3
      clean == \/ \E i \in 1..n : ~pr[i].ok
               \/ uniq /\ dup
               \/ IF F.d4 THEN CheckFixed(P) ELSE CheckAsCode(P)
               \/ F.d5 /\ \E i \in 1..n : Escapes(C[i])                                        \* DEVIATION D5
      \* directory target: shutil.copytree refuses an existing destination
      bad == IF kind = "dir" THEN {i \in 1..n : \E j \in 1..(i - 1) : CompPrefix(C[i], C[j])} ELSE {}
  IN IF clean THEN [res |-> "clean", ncopied |-> 0, P |-> P]
     ELSE IF bad # {} THEN [res |-> "dirty", ncopied |-> Min(bad) - 1, P |-> P]
     ELSE [res |-> "ok", ncopied |-> n, P |-> P]

(* CONFORMANT side: import of a successfully exported tree.  cb: the schema is a callable that knows the job
   directories (so it also knows a job at the root), otherwise state point files are looked up. *)
RECURSIVE ZipScan(_, _, _, _)
ZipScan(rest, ids, fix1, rootOk) ==
  IF rest = <<>> THEN ids
  ELSE LET s == Head(rest) IN
       IF \E q \in ids : (IF fix1 THEN SubPath(q, s) ELSE StrPrefix(q, s))                     \* DEVIATION D1
       THEN ZipScan(Tail(rest), ids, fix1, rootOk)
       ELSE IF s # <<>> \/ rootOk THEN ZipScan(Tail(rest), ids \cup {s}, fix1, rootOk)         \* DEVIATION D2
       ELSE ZipScan(Tail(rest), ids, fix1, rootOk)
\* os.path.dirname of a normalised relative path
DirNameN(s) == LET I == {i \in 1..Len(s) : s[i] = SL} IN IF I = {} THEN <<>> ELSE SubSeq(s, 1, Max(I) - 1)
RECURSIVE TarScan(_, _, _, _, _)      \* rest: all directory members, sorted; sp: the ones holding a state point file
TarScan(rest, ids, skip, rootOk, sp) ==
  IF rest = <<>> THEN ids
  ELSE LET s == Head(rest) IN
       \* "skip all sub-dirs of identified dirs": a skipped directory is added to the set, so the whole sub-tree is skipped
       IF s # <<>> /\ DirNameN(s) \in skip THEN TarScan(Tail(rest), ids, skip \cup {s}, rootOk, sp)
       ELSE IF s \in sp /\ (s # <<>> \/ rootOk) THEN TarScan(Tail(rest), ids \cup {s}, skip \cup {s}, rootOk, sp) \* DEVIATION D2
       ELSE TarScan(Tail(rest), ids, skip, rootOk, sp)
Under(b, d) == IF d = <<>> THEN b ELSE IF b = <<>> THEN JoinSL(d) ELSE b \o <<SL>> \o JoinSL(d)

(* Import(tree): every TOP-MOST directory holding a state point file is that job; state point files further down are
   payload.  Candidates are all directories holding a state point file (job roots and embedded ones); a callable
   schema / schema string only knows the job roots. *)
ImportOf(J, P, kind, F, cb) ==
  LET n == Len(J)
      N == [i \in 1..n |-> JoinSL(NormComps(P[i]))]
      Esc  == {i \in 1..n : Escapes(NormComps(P[i]))}
      \* a directory target does not contain what was written outside of it
      In == IF kind = "dir" THEN (1..n) \ Esc ELSE 1..n
      SpD(i) == IF cb THEN {<<>>} ELSE SpDirsOf(J[i])
      Cand == UNION {{[s |-> Under(N[i], d), b |-> N[i], d |-> d] : d \in SpD(i)} : i \in In}
      CStrs == {x.s : x \in Cand}
      AllDirs == UNION {{Under(N[i], d) : d \in DirsOf(J[i])} : i \in In}
      LastDup(i) == \A j \in (i + 1)..n : N[j] # N[i]           \* duplicate archive members: the last one is read
      ZipPre(q, s) == IF F.d1 THEN SubPath(q, s) ELSE StrPrefix(q, s)
      Ids == CASE kind = "dir" -> {s \in CStrs : ~\E q \in CStrs : q # s /\ SubPath(q, s)}                  \* os.walk, top-down
               [] kind = "zip" -> ZipScan(SetToSortSeq(CStrs, LexLess), {}, F.d1, F.d2 \/ cb)
               [] kind = "tar" -> TarScan(SetToSortSeq(AllDirs, LexLess), {}, {}, F.d2 \/ cb, CStrs)
      IdC == {x \in Cand : x.s \in Ids}
      \* the job an identified directory becomes: 0 = a job the exported project does not have
      \* (when several jobs were written to one path, the files of the last one are read)
      who == [x \in IdC |-> LET w == Max({i \in In : N[i] = x.b /\ x.d \in SpD(i)}) IN IF SelfSp(J[w], x.d) THEN w ELSE 0]
      Alien  == \E x \in IdC : who[x] = 0
      DupJob == \E x, y \in IdC : x # y /\ who[x] # 0 /\ who[x] = who[y]     \* "identified jobs are not unique": the import raises
      ident == [i \in 1..n |-> i \in In /\ N[i] \in Ids /\ LastDup(i)]         \* the job's own directory is identified
      imp   == [i \in 1..n |-> \E x \in IdC : who[x] = i]
      Into(i)  == IF kind = "zip" THEN {j \in 1..n : ZipPre(N[i], N[j]) /\ SubPath(N[i], N[j])}
                  ELSE {j \in In : SubPath(N[i], N[j])}
      Stray    == IF kind = "zip"
                  THEN UNION {{j \in 1..n : ZipPre(N[i], N[j]) /\ ~SubPath(N[i], N[j])} : i \in {i \in 1..n : ident[i]}}
                  ELSE {}
      Covers(i, j) == (J[j].doc => J[i].doc) /\ (J[j].nested => J[i].nested) /\ (J[j].embed = "none" \/ J[i].embed # "none") /\ (J[j].odd => J[i].odd)
      \* zip: the members copied into a job are the archive names within its directory (_is_within / startswith);
      \* every payload file of the job, whatever its name, must be among them
      ZipHasAll(i) == kind # "zip" \/ ~J[i].odd \/ \A f \in OddFiles : ZipPre(N[i], Under(N[i], f))
      exact == [i \in 1..n |-> ident[i] /\ ZipHasAll(i) /\ \A j \in Into(i) \ {i} : N[j] = N[i] /\ Covers(i, j)]
      none == [i \in 1..n |-> FALSE]
  IN \* clean raises after the analysis (ident is what the analysis identified):
     \* tarfile.extractall(filter="data") refuses members outside the extraction directory (Python >= 3.12);
     \* archives check that the identified jobs are unique before anything is copied
     IF (kind = "tar" /\ Esc # {}) \/ (kind # "dir" /\ DupJob)
     THEN [ident |-> imp, imp |-> none, exact |-> none, stray |-> FALSE, raises |-> TRUE, outside |-> FALSE, nids |-> 0]
     ELSE [ident |-> imp, imp |-> imp, exact |-> exact, nids |-> Cardinality(Ids),      \* nids: directories identified as jobs
           stray |-> Stray # {} \/ Alien, raises |-> FALSE, outside |-> kind = "dir" /\ Esc # {}]

Outcome(J, pr, pskind, kind, F, cb) ==
  LET n == Len(J)
      ex == ExportOf(J, pr, pskind, kind, F)
      none == [i \in 1..n |-> FALSE]
      \* a directory export that stops after k jobs has already written the escaping ones among them
      escd == kind = "dir" /\ \E i \in 1..ex.ncopied : Escapes(NormComps(ex.P[i]))
  IN IF ex.res # "ok"
     THEN [exp |-> ex.res, ncopied |-> ex.ncopied, ident |-> none, imp |-> none, exact |-> none, stray |-> FALSE, impraise |-> FALSE, nids |-> 0,
           outside |-> ex.res = "dirty" /\ escd, rt |-> ex.res = "clean"]
     ELSE LET im == ImportOf(J, ex.P, kind, F, cb) IN
          [exp |-> "ok", ncopied |-> n, nids |-> im.nids, ident |-> im.ident, imp |-> im.imp, exact |-> im.exact, stray |-> im.stray, impraise |-> im.raises,
           outside |-> im.outside,
           \* RoundTripOK, or the import raised before copying; writing outside the target is never acceptable
           rt |-> ~im.outside /\ (im.raises \/ ((\A i \in 1..n : im.imp[i] /\ im.exact[i]) /\ ~im.stray))]

\* which deviation explains a failing outcome: the first of D5, D3, D4, D2, D1 whose (cumulative) repair satisfies the requirement
Blame(J, pr, pskind, kind, F, cb, rt0) ==       \* rt0 = Outcome(J, pr, pskind, kind, F, cb).rt
  LET F5 == [F EXCEPT !.d5 = TRUE]
      F3 == [F5 EXCEPT !.d3 = TRUE]  F4 == [F3 EXCEPT !.d4 = TRUE]  F2 == [F4 EXCEPT !.d2 = TRUE]  F1 == [F2 EXCEPT !.d1 = TRUE]
  IN IF rt0 THEN "none"
     ELSE IF Outcome(J, pr, pskind, kind, F5, cb).rt THEN "D5"
     ELSE IF Outcome(J, pr, pskind, kind, F3, cb).rt THEN "D3"
     ELSE IF Outcome(J, pr, pskind, kind, F4, cb).rt THEN "D4"
     ELSE IF Outcome(J, pr, pskind, kind, F2, cb).rt THEN "D2"
     ELSE IF Outcome(J, pr, pskind, kind, F1, cb).rt THEN "D1"
     ELSE "unexplained"

-----------------------------------------------------------------------------
(* schema strings: "k1/{k1:t1}/k2/{k2:t2}" describes the automatic layout of a homogeneous project *)
TypeOfVal(v) == CASE v.t = "int" -> "int" [] v.t = "flt" -> "float" [] v.t = "bool" -> "bool" [] v.t = "str" -> "str" [] OTHER -> "none"
PlainDecimal(s) == \E d \in 2..(Len(s) - 1) : s[d] = DOT /\ \A i \in 1..Len(s) : i # d => IsDigit(s[i])
AllowedVal(v) == CASE v.t = "int"  -> v.n >= 0
                   [] v.t = "flt"  -> PlainDecimal(v.a)
                   [] v.t = "bool" -> TRUE
                   [] v.t = "str"  -> v.a # <<>> /\ \A i \in 1..Len(v.a) : IsWord(v.a[i])
                   [] OTHER -> FALSE
SchemaApplicable(J) ==
  LET ix == Index(J) IN
  /\ Len(J) >= 2
  /\ \A i \in 1..Len(J) : {e[1] : e \in Flat(J[i].sp, <<>>)} = DOMAIN ix
  /\ \A kp \in DOMAIN ix : /\ ~ix[kp].const
                          /\ \A i \in 1..Len(J) : AllowedVal(ix[kp].val[i]) /\ TypeOfVal(ix[kp].val[i]) = TypeOfVal(ix[kp].val[1])
SchemaOf(J) == LET ix == Index(J)  ks == AutoKeys(ix, {}) IN
               [t \in 1..Len(ks) |-> [kp |-> ks[t], key |-> Dotted(ks[t]), ty |-> TypeOfVal(ix[ks[t]].val[1])]]
\* RE_TYPES of the code, as full matches of one path component
ReInt(s)   == LET b == IF s # <<>> /\ s[1] \in {43, 45} THEN Tail(s) ELSE s IN b # <<>> /\ \A i \in 1..Len(b) : IsDigit(b[i])
ReFloat(s) == LET b == IF s # <<>> /\ s[1] \in {43, 45} THEN Tail(s) ELSE s
                  dots == {i \in 1..Len(b) : b[i] = DOT} IN
              /\ b # <<>> /\ IsDigit(b[Len(b)]) /\ Cardinality(dots) <= 1
              /\ \A i \in 1..Len(b) : IsDigit(b[i]) \/ b[i] = DOT
ReWord(s)  == s # <<>> /\ \A i \in 1..Len(s) : IsWord(s[i])
RECURSIVE DigitsVal(_)
DigitsVal(s) == IF s = <<>> THEN 0 ELSE DigitsVal(SubSeq(s, 1, Len(s) - 1)) * 10 + (s[Len(s)] - 48)
ConvBool(s) == LET l == Lower(s) IN
               IF l \in {<<116, 114, 117, 101>>, <<49>>} THEN TRUE ELSE IF l \in {<<102, 97, 108, 115, 101>>, <<48>>} THEN FALSE ELSE s # <<>>
\* int(), float(), str, _convert_bool; float(text) is identified by its shortest repr (trusted base): "1" -> 1.0
Conv(ty, s) == CASE ty = "int"   -> IF s[1] = 45 THEN JInt(0 - DigitsVal(Tail(s))) ELSE IF s[1] = 43 THEN JInt(DigitsVal(Tail(s))) ELSE JInt(DigitsVal(s))
                 [] ty = "float" -> IF \E i \in 1..Len(s) : s[i] = DOT THEN JFlt(s) ELSE JFlt(s \o <<DOT, 48>>)
                 [] ty = "bool"  -> JBool(ConvBool(s))
                 [] OTHER        -> JStr(s)
ReOf(ty, s) == CASE ty = "int" -> ReInt(s) [] ty = "float" -> ReFloat(s) [] OTHER -> ReWord(s)
\* re.match(schema_regex, path): literal components must be equal, typed components must match; then convert
ParseBack(sch, C) ==
  IF Len(C) = 2 * Len(sch) /\ \A t \in 1..Len(sch) : C[2 * t - 1] = sch[t].key /\ ReOf(sch[t].ty, C[2 * t])
  THEN [ok |-> TRUE, flat |-> {<<sch[t].kp, Conv(sch[t].ty, C[2 * t])>> : t \in 1..Len(sch)}]
  ELSE [ok |-> FALSE, flat |-> {}]

-----------------------------------------------------------------------------
(* cases *)
IdIdx == {i \in 1..Len(Tab) : Tab[i].k = "id"}
IdTbl == IF MODE = "universe" THEN [u \in 1..NU |-> Tab[CHOOSE i \in IdIdx : Tab[i].u = u].r] ELSE <<>>
OddOf(u) == u \in {2, 17}          \* which universe jobs carry the unusual-names payload
EmbedOf(u) == IF u % 6 = 1 THEN "self" ELSE IF u % 6 = 4 THEN "foreign" ELSE "none"
JobOf(u) == [u |-> u, sp |-> Universe[u], id |-> IdTbl[u], doc |-> u % 3 # 0, nested |-> u % 2 = 1, embed |-> EmbedOf(u), odd |-> OddOf(u)]
Perms(S) == LET m == Cardinality(S) IN {s \in [1..m -> S] : \A i, j \in 1..m : i # j => s[i] # s[j]}
\* a case is kept small (state = [tag, us, ps]); the jobs are looked up when a theorem is evaluated:
\* universe mode: us = universe indices in listing order; file mode: tag = line of the harness file, us = 1..n
UCases == IF MODE # "universe" THEN {} ELSE
          UNION {UNION {{[tag |-> 0, us |-> s, ps |-> p] : p \in 1..Len(PathSpecs)}
                        : s \in Perms(S)} : S \in {S \in UNION {kSubset(k, 1..NU) : k \in 0..MAXJOBS} : SumSet(S) % NPARTS = PART}}
FileIn == IF MODE = "file" THEN ndJsonDeserialize(IOEnv.C16_CASES) ELSE <<>>
FJobs(r) == [i \in 1..Len(r.jobs) |-> [u |-> r.jobs[i].u, sp |-> FromWire(r.jobs[i].sp), id |-> r.jobs[i].id,
                                        doc |-> r.jobs[i].doc, nested |-> r.jobs[i].nested, embed |-> r.jobs[i].embed, odd |-> r.jobs[i].odd]]
Cases == CASE MODE = "universe" -> UCases
           [] MODE = "file"     -> {[tag |-> i, us |-> [k \in 1..Len(FileIn[i].jobs) |-> k], ps |-> FileIn[i].ps] : i \in 1..Len(FileIn)}
           [] OTHER             -> {[tag |-> 0, us |-> <<>>, ps |-> 1]}
JobsOf(x) == IF MODE = "file" THEN FJobs(FileIn[x.tag]) ELSE [i \in 1..Len(x.us) |-> JobOf(x.us[i])]

VARIABLE c
Init == c \in Cases
Next == UNCHANGED c

Kinds == {"dir", "zip", "tar"}
PS == PathSpecs[c.ps]
AllOk(pr)   == \A i \in 1..Len(pr) : pr[i].ok
CompsOf(pr) == [i \in 1..Len(pr) |-> NormComps(pr[i].s)]

(* theorems checked on every case (pr, comps are bound once per case: TLC re-evaluates definitions, not LETs) *)
\* the acceptance condition is exactly the condition under which an ideal export/import round trip is the identity
AcceptExact == LET J == JobsOf(c)  pr == PathsOf(J, PS)  comps == CompsOf(pr) IN
  AllOk(pr) => (Accept(comps) <=> IdealRoundTrip(J, comps))
\* a map that is not accepted must be rejected before any job is copied (holds for the repaired model only)
RejectBeforeCopy == LET J == JobsOf(c)  pr == PathsOf(J, PS)  comps == CompsOf(pr) IN
  (AllOk(pr) /\ ~Accept(comps)) => \A k \in Kinds : ExportOf(J, pr, PS.kind, k, Flags).res = "clean"
\* RoundTripOK \/ RaisedCleanly, for every target kind, for state point files and callable schemas
Requirement == LET J == JobsOf(c)  pr == PathsOf(J, PS) IN \A k \in Kinds : \A cb \in BOOLEAN : Outcome(J, pr, PS.kind, k, Flags, cb).rt
\* every failure of the conformant model is explained by a named deviation
\* (the exported blame field carries the same information; the driver refuses an "unexplained" blame)
NoUnexplained == LET J == JobsOf(c)  pr == PathsOf(J, PS) IN \A k \in Kinds : \A cb \in BOOLEAN :
                   Blame(J, pr, PS.kind, k, Flags, cb, Outcome(J, pr, PS.kind, k, Flags, cb).rt) # "unexplained"
\* the repaired model never fails
RepairedOk == LET J == JobsOf(c)  pr == PathsOf(J, PS) IN \A k \in Kinds : \A cb \in BOOLEAN : Outcome(J, pr, PS.kind, k, AllFixed, cb).rt
\* import never writes outside the job directories of the importing project
ImportFrame == LET J == JobsOf(c)  pr == PathsOf(J, PS) IN \A k \in Kinds : \A cb \in BOOLEAN : ~Outcome(J, pr, PS.kind, k, Flags, cb).stray
\* export writes only beneath its target (holds for the repaired model only: DEVIATION D5)
ExportFrame == LET J == JobsOf(c)  pr == PathsOf(J, PS) IN \A k \in Kinds : ~Outcome(J, pr, PS.kind, k, Flags, FALSE).outside
\* import into a project in which the jobs E already exist.  As the code: copytree refuses an existing job directory
\* (DestinationExistsError; directories are copied one by one in crawl order until then), archives test
\* os.path.exists(job.path) for every identified job before anything is copied.
ImportInto(o, kind, E) ==        \* o = Outcome(...) of the export + import into an empty project
  LET ident == {i \in 1..Len(o.ident) : o.exp = "ok" /\ o.ident[i]}
  IN [raises |-> ident \cap E # {} \/ o.impraise, exists |-> ident \cap E # {},
      maywrite |-> IF (ident \cap E # {} /\ kind # "dir") \/ o.impraise THEN {} ELSE ident \ E]
\* which jobs may already exist: every subset for small projects, else none / each single job / all
Existing(n) == IF n <= 4 THEN SUBSET (1..n) ELSE {{}, 1..n} \cup {{i} : i \in 1..n}
\* import never overwrites an existing job
NeverOverwrite == LET J == JobsOf(c)  pr == PathsOf(J, PS) IN \A k \in Kinds :
                    LET o == Outcome(J, pr, PS.kind, k, Flags, FALSE) IN
                    \A E \in Existing(Len(J)) : ImportInto(o, k, E).maywrite \cap E = {}
\* a schema string parses back the layout it describes
SchemaCase == PS.kind = "none" /\ SchemaApplicable(JobsOf(c))
SchemaParseBack == SchemaCase => LET J == JobsOf(c)  sch == SchemaOf(J)  comps == CompsOf(PathsOf(J, PS)) IN \A i \in 1..Len(J) :
                     LET r == ParseBack(sch, comps[i]) IN r.ok /\ r.flat = Flat(J[i].sp, <<>>)

-----------------------------------------------------------------------------
(* export of the cases with everything the driver compares.
   existing: the first listed job already exists in the importing project - the conformant model raises
   DestinationExistsError exactly when that job is identified (never overwrite) *)
OutKind(J, pr, pskind, k, cb) == LET o == Outcome(J, pr, pskind, k, Flags, cb) IN
  [exp |-> o.exp, ncopied |-> o.ncopied, imp |-> o.imp, exact |-> o.exact, stray |-> o.stray, rt |-> o.rt,
   impraise |-> o.impraise, outside |-> o.outside,
   blame |-> Blame(J, pr, pskind, k, Flags, cb, o.rt),
   existing |-> Len(J) >= 1 /\ ImportInto(o, k, {1}).raises, existingdee |-> Len(J) >= 1 /\ ImportInto(o, k, {1}).exists,
   \* jobs that may have been copied when the import into that project returns or raises (calibrated, not a requirement:
   \* directories are copied one by one until the conflict, archives are all-or-nothing)
   existingmay |-> [i \in 1..Len(J) |-> i \in ImportInto(o, k, {1}).maywrite]]
OutCase(x) == LET J == JobsOf(x)  ps == PathSpecs[x.ps]  n == Len(J)
                  pr == PathsOf(J, ps)
                  comps == CompsOf(pr)
                  allok == AllOk(pr)
                  sc == ps.kind = "none" /\ SchemaApplicable(J)
                  sch == SchemaOf(J) IN
  [tag |-> IF MODE = "file" THEN FileIn[x.tag].tag ELSE 0, ps |-> x.ps, us |-> [i \in 1..n |-> J[i].u],
   doc |-> [i \in 1..n |-> J[i].doc], nested |-> [i \in 1..n |-> J[i].nested], embed |-> [i \in 1..n |-> J[i].embed], odd |-> [i \in 1..n |-> J[i].odd],
   pathsok |-> allok, paths |-> [i \in 1..n |-> pr[i].s],
   accept |-> allok /\ Accept(comps),
   safe |-> allok => \A i \in 1..n : /\ (pr[i].s = <<>> \/ pr[i].s[1] # SL)      \* sandbox safety of the replay
                                       /\ ((\E t \in 1..Len(SplitOn(pr[i].s, SL)) : SplitOn(pr[i].s, SL)[t] = <<DOT, DOT>>) => pr[i].s = NormPath(pr[i].s))
                                       /\ (Len(comps[i]) < 2 \/ comps[i][2] # <<DOT, DOT>>),   \* at most one level up
   dir |-> OutKind(J, pr, ps.kind, "dir", FALSE), zip |-> OutKind(J, pr, ps.kind, "zip", FALSE), tar |-> OutKind(J, pr, ps.kind, "tar", FALSE),
   cbdir |-> OutKind(J, pr, ps.kind, "dir", TRUE), cbzip |-> OutKind(J, pr, ps.kind, "zip", TRUE), cbtar |-> OutKind(J, pr, ps.kind, "tar", TRUE),
   schema |-> IF sc THEN [t \in 1..Len(sch) |-> [key |-> sch[t].key, ty |-> sch[t].ty]] ELSE <<>>]

WireSeg(s) == [k |-> s.k, t |-> s.t, kp |-> s.kp]
Describe == <<[universe |-> [u \in 1..NU |-> ToWire(Universe[u])],
               leaves |-> LET ls == SetToSeq(Leaves) IN [i \in 1..Len(ls) |-> ToWire(ls[i])],
               doc |-> [u \in 1..NU |-> u % 3 # 0], nested |-> [u \in 1..NU |-> u % 2 = 1], embed |-> [u \in 1..NU |-> EmbedOf(u)], odd |-> [u \in 1..NU |-> OddOf(u)],
               filetoks |-> SetToSeq(FileToks), dirtoks |-> SetToSeq(DirToks), deep2toks |-> SetToSeq(Deep2Toks),
               pathspecs |-> [p \in 1..Len(PathSpecs) |-> [name |-> PathSpecs[p].name, kind |-> PathSpecs[p].kind,
                                                          segs |-> [t \in 1..Len(PathSpecs[p].segs) |-> WireSeg(PathSpecs[p].segs[t])]]]]>>
Export == /\ TLCGet("level") >= 0
          /\ IF MODE = "describe" THEN ndJsonSerialize(IOEnv.C16_OUT, Describe)
             ELSE LET cs == SetToSeq(Cases) IN ndJsonSerialize(IOEnv.C16_OUT, [i \in 1..Len(cs) |-> OutCase(cs[i])])
=============================================================================

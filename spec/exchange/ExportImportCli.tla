-------------------------- MODULE ExportImportCli --------------------------
(* The command line front end of export / import (signac/__main__.py: main_export, main_import,
   _main_import_non_interactive) bound to ExportImport.tla.

   Every command is its own process over the on-disk state.  What a command does to the disk is written as a
   COMPOSITION of the operators of ExportImport (PathsOf, Outcome = ExportOf + ImportOf, ImportInto), applied to
   the jobs the command line selects - so the library front and the command front cannot drift apart.  What the
   command reports is its exit status and the message class printed on stderr:
       export:  "exported" (Exported n job(s).) | "nojobs" (No jobs to export.) | "error" (Error: ..., exit 1)
       import:  "imported" (Imported n job(s).) | "nothing" (Nothing to import.) | "failed" (Import failed.) | "error"

   A case = jobs in listing order, path specification (None or a format string: the command takes a string),
   target kind, job selection (-j ids | -f doc.sel true | -f '{"doc.sel": true}' | none), --move, and what is done
   with the exported target afterwards (the variant):
       fresh          signac import <target>                       in a fresh project
       schema         signac import <target> <schema string>       in a fresh project (when a schema string describes the layout)
       import_move    signac import <target> --move                in a fresh project (directories only; files are refused)
       existing       signac import <target>                       in a project that already has the first exported job
       existing_move  signac import <target> --move                the same, moving (directories only)
       existing_sync  signac import <target> --sync                the same, through a temporary project and sync
       reexport       signac export <target> ... once more         (directory targets: the target exists now)

   REQUIREMENTS at the command level (what the user of the command is promised):
       CliRoundTrip        export + import through the command line reproduces the selected jobs, or a command exits 1
                           before any job was copied
       CliRefusalSignalled a refused export / import (unrepresentable path specification, --move to or from a file,
                           existing destination job, existing target directory) exits with status 1
       CliSuccessHonest    "Imported n job(s)." with exit status 0 is only printed when every job arrived byte-identically
       CliNeverAlters      a job that exists in the importing project is never written to, whatever the flags
                           (--sync merges by definition: there the existing job must keep everything it had)
   \* DEVIATION C1: a refused import (DestinationExistsError, sync conflict) prints "Import failed." but exits 0
   \* DEVIATION C2: import --move uses shutil.move, which moves INTO an existing job directory instead of refusing *)
EXTENDS ExportImport

CONSTANTS CMAXJOBS,  \* projects of 1..CMAXJOBS jobs
          THIN,      \* keep one of THIN (listing order, path spec) combinations
          NVAR,      \* command line variations per kept combination
          FixC1, FixC2

CliSpecs == {p \in 1..Len(PathSpecs) : PathSpecs[p].kind \in {"none", "str"}}
KindSeq == <<"dir", "zip", "tar">>
ModeSeq == <<"all", "ids", "fsimple", "fjson">>
VarSeq  == <<"fresh", "existing", "schema", "existing_sync", "import_move", "existing_move", "reexport">>

\* the command line variation q of (listing order s, path spec p): derived deterministically, so that kinds, selections,
\* --move and variants are spread evenly over the job sets without enumerating their product
CliCase(s, p, q) ==
  LET n == Len(s)
      h == SumSet({s[i] : i \in 1..n}) * 7 + s[1] * 5 + p * 3 + n + q * 11
      mode == ModeSeq[((h \div 3) % 4) + 1]
      all == 1..n
      \* (-j needs at least one id; a filter may select nothing)
      sel == IF mode = "all" THEN all ELSE <<all, {1}, {n}, IF mode = "ids" THEN {1} ELSE {}>>[((h \div 12) % 4) + 1]
      kind == KindSeq[(h % 3) + 1]
      var0 == VarSeq[((h \div 5) % 7) + 1]
  IN [us |-> s, ps |-> p, kind |-> kind, mode |-> mode, sel |-> sel, move |-> ((h \div 7) % 3 = 0) /\ var0 \notin {"reexport"},
      var |-> IF var0 \in {"existing_move", "reexport"} /\ kind # "dir" THEN "fresh" ELSE var0]
CliCases == IF MODE # "universe" THEN {} ELSE
  UNION {UNION {{CliCase(s, p, q) : q \in 1..NVAR} : p \in {p \in CliSpecs : (SumSet({s[i] : i \in 1..Len(s)}) + s[1] + p) % THIN = 0}}
         : s \in UNION {Perms(S) : S \in {S \in UNION {kSubset(k, 1..NU) : k \in 1..CMAXJOBS} : SumSet(S) % NPARTS = PART}}}
CInit == c \in CliCases

\* every job has a document on this front (the selection filter reads doc.sel)
CliJobs(x) == [i \in 1..Len(x.us) |-> [JobOf(x.us[i]) EXCEPT !.doc = TRUE]]
SelSeq(x) == SetToSortSeq(x.sel, LAMBDA a, b : a < b)
Selected(x) == LET J == CliJobs(x)  ss == SelSeq(x) IN [k \in 1..Len(ss) |-> J[ss[k]]]

(* ---- the commands ---- *)
\* signac export <target> [schema_path] [--move] [selection]
ExportCmd(x, F) ==
  LET Js == Selected(x)  m == Len(Js)  ps == PathSpecs[x.ps]
      o == Outcome(Js, PathsOf(Js, ps), ps.kind, x.kind, F, FALSE)
  IN IF x.move /\ x.kind # "dir" THEN [exit |-> 1, msg |-> "error", n |-> 0, ok |-> FALSE, o |-> o]     \* --move only to directories
     ELSE IF m = 0 THEN [exit |-> 0, msg |-> "nojobs", n |-> 0, ok |-> FALSE, o |-> o]
     ELSE IF o.exp = "ok" THEN [exit |-> 0, msg |-> "exported", n |-> m, ok |-> TRUE, o |-> o]
     ELSE [exit |-> 1, msg |-> "error", n |-> 0, ok |-> FALSE, o |-> o]
\* signac import <target> [schema] [--move] in a fresh project
ImportFresh(x, o, move) ==
  IF move /\ x.kind # "dir" THEN [exit |-> 1, msg |-> "error", n |-> 0, copied |-> FALSE]                  \* --move only from directories
  ELSE IF o.impraise THEN [exit |-> 1, msg |-> "error", n |-> 0, copied |-> FALSE]
  ELSE IF o.nids = 0 THEN [exit |-> 0, msg |-> "nothing", n |-> 0, copied |-> FALSE]
  ELSE [exit |-> 0, msg |-> "imported", n |-> o.nids, copied |-> TRUE]
\* signac import <target> [--move | --sync] in a project in which the first exported job exists (with data of its own)
ImportExisting(x, o, how, FC) ==
  LET into == ImportInto(o, x.kind, {1}) IN
  CASE how = "sync" ->
         \* import into a temporary project, then project.sync(tmp, recursive=True, check_schema=True): merges into the existing
         \* job, but (as the code, calibrated - sync belongs to C13..C15) refuses with a schema conflict when the detected schema
         \* (state point key -> typed values) of the imported jobs differs from that of the project (here: of the one existing job)
         LET Js == Selected(x)
             got == {i \in 1..Len(Js) : o.ident[i]}
             keys(S) == UNION {Flat(Js[i].sp, <<>>) : i \in S}
         IN IF o.impraise THEN [exit |-> 1, msg |-> "error", n |-> 0, altered |-> FALSE]
            ELSE IF o.nids = 0 THEN [exit |-> 0, msg |-> "nothing", n |-> 0, altered |-> FALSE]
            ELSE IF keys(got) = keys({1}) /\ ~o.stray THEN [exit |-> 0, msg |-> "imported", n |-> o.nids, altered |-> FALSE]
            ELSE [exit |-> IF FC.c1 THEN 1 ELSE 0, msg |-> "failed", n |-> 0, altered |-> FALSE]              \* DEVIATION C1
    [] how = "move" /\ ~FC.c2 /\ into.exists ->
         [exit |-> 0, msg |-> "imported", n |-> o.nids, altered |-> TRUE]                                   \* DEVIATION C2
    [] OTHER ->
         IF into.exists THEN [exit |-> IF FC.c1 THEN 1 ELSE 0, msg |-> "failed", n |-> 0, altered |-> FALSE]   \* DEVIATION C1
         ELSE IF o.impraise THEN [exit |-> 1, msg |-> "error", n |-> 0, altered |-> FALSE]
         ELSE [exit |-> 0, msg |-> IF o.nids = 0 THEN "nothing" ELSE "imported", n |-> o.nids, altered |-> FALSE]

FlagsC == [c1 |-> FixC1, c2 |-> FixC2]
FixedC == [c1 |-> TRUE, c2 |-> TRUE]
SchemaFor(x) == LET Js == Selected(x) IN IF PathSpecs[x.ps].kind = "none" /\ SchemaApplicable(Js) THEN SchemaOf(Js) ELSE <<>>
\* a schema string is passed whenever one describes the exported layout
VarOf(x) == IF x.var \in {"fresh", "schema"} THEN (IF SchemaFor(x) = <<>> THEN "fresh" ELSE "schema") ELSE x.var

(* ---- requirements, per case ---- *)
RT(o) == o.rt /\ o.exp = "ok" /\ ~o.impraise
CliRoundTrip == LET e == ExportCmd(c, Flags) IN
  /\ (~e.ok /\ Len(Selected(c)) > 0) => e.exit = 1 /\ (e.o.exp = "clean" \/ (c.move /\ c.kind # "dir"))
  /\ e.ok => LET i == ImportFresh(c, e.o, FALSE) IN (i.exit = 1 /\ ~i.copied) \/ (i.exit = 0 /\ RT(e.o) /\ i.n = Len(Selected(c)))
CliSuccessHonest == LET e == ExportCmd(c, Flags) IN
  e.ok => LET i == ImportFresh(c, e.o, FALSE) IN (i.msg = "imported" /\ i.exit = 0) => RT(e.o)
CliRefusalSignalled == LET e == ExportCmd(c, Flags) IN
  /\ e.msg = "error" => e.exit = 1
  /\ e.ok => \A how \in {"copy", "move", "sync"} : LET r == ImportExisting(c, e.o, how, FlagsC) IN r.msg = "failed" => r.exit = 1
CliNeverAlters == LET e == ExportCmd(c, Flags) IN
  e.ok => \A how \in {"copy", "move", "sync"} : ~ImportExisting(c, e.o, how, FlagsC).altered

(* ---- export of the cases ---- *)
CBlame(x) == LET e == ExportCmd(x, Flags) IN
  IF ~e.ok THEN "none"
  ELSE IF VarOf(x) \in {"existing", "existing_move", "existing_sync"} THEN
         LET how == IF VarOf(x) = "existing_move" THEN "move" ELSE IF VarOf(x) = "existing_sync" THEN "sync" ELSE "copy"
             r == ImportExisting(x, e.o, how, FlagsC)
         IN IF r.altered THEN "C2" ELSE IF r.msg = "failed" /\ r.exit = 0 THEN "C1" ELSE "none"
  ELSE "none"
CliOut(x) ==
  LET Js == Selected(x)  m == Len(Js)  ps == PathSpecs[x.ps]
      e == ExportCmd(x, Flags)
      pr == PathsOf(Js, ps)
      v == VarOf(x)
      fresh == ImportFresh(x, e.o, v = "import_move")
      ex == ImportExisting(x, e.o, IF v = "existing_move" THEN "move" ELSE IF v = "existing_sync" THEN "sync" ELSE "copy", FlagsC)
      sch == SchemaFor(x)
  IN [us |-> x.us, ps |-> x.ps, kind |-> x.kind, mode |-> x.mode, sel |-> SelSeq(x), move |-> x.move, var |-> v,
      nested |-> [i \in 1..Len(x.us) |-> CliJobs(x)[i].nested], embed |-> [i \in 1..Len(x.us) |-> CliJobs(x)[i].embed],
      odd |-> [i \in 1..Len(x.us) |-> CliJobs(x)[i].odd],
      safe |-> AllOk(pr) => \A i \in 1..m : /\ (pr[i].s = <<>> \/ pr[i].s[1] # SL)
                                          /\ ~\E t \in 1..Len(SplitOn(pr[i].s, SL)) : SplitOn(pr[i].s, SL)[t] = <<DOT, DOT>>,
      export |-> [exit |-> e.exit, msg |-> e.msg, n |-> e.n, ok |-> e.ok, exp |-> e.o.exp],
      paths |-> [i \in 1..m |-> pr[i].s], pathsok |-> AllOk(pr),
      rt |-> RT(e.o), imp |-> e.o.imp, exact |-> e.o.exact, stray |-> e.o.stray, libblame |-> Blame(Js, pr, ps.kind, x.kind, Flags, FALSE, e.o.rt),
      fresh |-> fresh, existing |-> ex, blame |-> CBlame(x),
      schema |-> [t \in 1..Len(sch) |-> [key |-> sch[t].key, ty |-> sch[t].ty]]]
CliExport == /\ TLCGet("level") >= 0
             /\ LET cs == SetToSeq(CliCases) IN ndJsonSerialize(IOEnv.C16_OUT, [i \in 1..Len(cs) |-> CliOut(cs[i])])
=============================================================================

---------------------------- MODULE JsonValue ----------------------------
(* JSON values as uniform tagged records, so TLC never compares incomparable shapes.
   t: "null" | "bool" | "int" | "big" | "flt" | "str" | "list" | "map"
   b: boolean payload           n: small integer payload (|n| < 2^31)
   a: atom = sequence of code points (string content; decimal text of a big integer;
      repr text of a float - float -> text is trusted base, see DESIGN 8)
   l: sequence of values        m: function  key (sequence of code points) -> value
   Wire format (what crosses the TLC <-> harness boundary as JSON): identical, except that m is a
   sequence of <<key, value>> pairs (a JSON object could not carry non-ASCII keys through TLC). *)
EXTENDS Naturals, Integers, Sequences, FiniteSets, SequencesExt, Functions

JNull     == [t |-> "null", b |-> FALSE, n |-> 0, a |-> <<>>, l |-> <<>>, m |-> <<>>]
JBool(x)  == [JNull EXCEPT !.t = "bool", !.b = x]
JInt(x)   == [JNull EXCEPT !.t = "int",  !.n = x]
JBig(txt) == [JNull EXCEPT !.t = "big",  !.a = txt]
JFlt(txt) == [JNull EXCEPT !.t = "flt",  !.a = txt]
JStr(cps) == [JNull EXCEPT !.t = "str",  !.a = cps]
JList(s)  == [JNull EXCEPT !.t = "list", !.l = s]
JMap(f)   == [JNull EXCEPT !.t = "map",  !.m = f]

RECURSIVE FromWire(_)
FromWire(w) ==
  IF w.t = "list" THEN JList([i \in 1..Len(w.l) |-> FromWire(w.l[i])])
  ELSE IF w.t = "map" THEN LET idx(k) == CHOOSE i \in 1..Len(w.m) : w.m[i][1] = k IN
                           JMap([k \in {w.m[i][1] : i \in 1..Len(w.m)} |-> FromWire(w.m[idx(k)][2])])
  ELSE [t |-> w.t, b |-> w.b, n |-> w.n, a |-> w.a, l |-> <<>>, m |-> <<>>]

RECURSIVE ToWire(_)
ToWire(v) ==
  IF v.t = "list" THEN [v EXCEPT !.l = [i \in 1..Len(v.l) |-> ToWire(v.l[i])]]
  ELSE IF v.t = "map" THEN LET ks == SetToSeq(DOMAIN v.m) IN
                           [v EXCEPT !.m = [i \in 1..Len(ks) |-> <<ks[i], ToWire(v.m[ks[i]])>>]]
  ELSE v

\* lexicographic order on code point sequences (Python's str ordering)
RECURSIVE LexLess(_, _)
LexLess(x, y) == IF x = <<>> THEN y # <<>>
                 ELSE IF y = <<>> THEN FALSE
                 ELSE IF Head(x) = Head(y) THEN LexLess(Tail(x), Tail(y))
                 ELSE Head(x) < Head(y)
SortedKeys(f) == SetToSortSeq(DOMAIN f, LexLess)

RECURSIVE JoinSeqs(_, _)
JoinSeqs(ss, sep) == IF ss = <<>> THEN <<>>
                     ELSE IF Len(ss) = 1 THEN ss[1]
                     ELSE ss[1] \o sep \o JoinSeqs(Tail(ss), sep)
=============================================================================

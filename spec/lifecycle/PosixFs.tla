------------------------------ MODULE PosixFs ------------------------------
(* A small POSIX file-system model for the crash / fault / reader properties C10, C11 (and C12).

   names : path -> [k : "f" | "d", ino : Nat]      the name space (paths are sequences of name components;
                                                    only existing paths are in the domain; dirs have ino 0)
   data  : inode -> content abstraction            [v, done, total, pc]  ("<<version, prefixClass>>"):
              v     the version (an opaque token naming the bytes a complete write produces)
              done  number of chunks of that version that are completely on disk
              total number of chunks a complete write of v has
              pc    prefix class of the chunk that was being written when the writer was interrupted:
                    "none" | "p1" (1 byte) | "half" | "allbut1"   ("p0" = nothing of the chunk = "none")
   fds   : process -> inode (0 = no open file description). An open description keeps its inode
           alive and is unaffected by rename/unlink of the name - that is what makes temp+rename atomic
           for a concurrent reader.  One description per process is all the protocols need.
   nextIno : inode allocator.

   Trusted base: rename(2) replaces the destination name atomically, a process crash loses nothing that a
   completed write(2) put into the page cache (C10/C11 are about process death, not power loss).
   Every operator below is an action fragment over <<names, data, fds, nextIno>>; natural failure outcomes
   (ENOENT, EEXIST, ENOTEMPTY, EISDIR) are computed by the *Outcome operators and have no effect.          *)
EXTENDS Naturals, Sequences, FiniteSets, TLC

VARIABLES names, data, fds, nextIno
fsvars == <<names, data, fds, nextIno>>

PrefixClasses == {"p0", "p1", "half", "allbut1"}

Empty      == [v |-> "-", done |-> 0, total |-> 1, pc |-> "none"]      \* a created / truncated file
Full(v, n) == [v |-> v, done |-> n, total |-> n, pc |-> "none"]
DirEnt     == [k |-> "d", ino |-> 0]
FileEnt(i) == [k |-> "f", ino |-> i]

(* what a parser makes of a content: the version if complete, otherwise EMPTY / TORN *)
Parse(c) == IF c.done = c.total /\ c.pc = "none" THEN c.v
            ELSE IF c.done = 0 /\ c.pc = "none" THEN "EMPTY" ELSE "TORN"

Exists(p) == p \in DOMAIN names
IsDir(p)  == Exists(p) /\ names[p].k = "d"
IsFile(p) == Exists(p) /\ names[p].k = "f"
Parent(p) == SubSeq(p, 1, Len(p) - 1)
ParentOk(p) == Len(p) = 1 \/ IsDir(Parent(p))
IsPrefix(p, q) == Len(p) <= Len(q) /\ SubSeq(q, 1, Len(p)) = p
Under(p)    == {q \in DOMAIN names : IsPrefix(p, q)}                    \* p and everything below
Children(p) == {q \in DOMAIN names : Len(q) = Len(p) + 1 /\ IsPrefix(p, q)}
Reprefix(q, src, dst) == dst \o SubSeq(q, Len(src) + 1, Len(q))
ContentAt(p) == data[names[p].ino]
ParseAt(p) == IF ~Exists(p) THEN "ABSENT" ELSE IF IsDir(p) THEN "DIR" ELSE Parse(ContentAt(p))
(* the observable disk: path -> "DIR" | parse result (inode numbers are not observable) *)
Disk == [p \in DOMAIN names |-> ParseAt(p)]

---------------------------------------------------------------------------
(* natural outcomes *)
RenameOutcome(src, dst) ==
  IF ~Exists(src) \/ ~ParentOk(dst) THEN "ENOENT"
  ELSE IF ~Exists(dst) THEN "ok"
  ELSE IF IsDir(src) THEN (IF ~IsDir(dst) THEN "ENOTDIR" ELSE IF Children(dst) # {} THEN "ENOTEMPTY" ELSE "ok")
  ELSE IF IsDir(dst) THEN "EISDIR" ELSE "ok"
UnlinkOutcome(p) == IF ~Exists(p) THEN "ENOENT" ELSE IF IsDir(p) THEN "EISDIR" ELSE "ok"
MkdirOutcome(p)  == IF Exists(p) THEN "EEXIST" ELSE IF ~ParentOk(p) THEN "ENOENT" ELSE "ok"
RmdirOutcome(p)  == IF ~Exists(p) THEN "ENOENT" ELSE IF ~IsDir(p) THEN "ENOTDIR"
                    ELSE IF Children(p) # {} THEN "ENOTEMPTY" ELSE "ok"
OpenTruncOutcome(p) == IF ~ParentOk(p) THEN "ENOENT" ELSE IF IsDir(p) THEN "EISDIR" ELSE "ok"
OpenReadOutcome(p)  == IF ~Exists(p) THEN "ENOENT" ELSE IF IsDir(p) THEN "EISDIR" ELSE "ok"

---------------------------------------------------------------------------
(* effects (enabled only for outcome "ok") *)
(* open(p, O_WRONLY|O_CREAT|O_TRUNC): a new inode, or the EXISTING inode truncated in place *)
OpenTrunc(proc, p) ==
  /\ OpenTruncOutcome(p) = "ok"
  /\ IF IsFile(p)
     THEN /\ data' = [data EXCEPT ![names[p].ino] = Empty]
          /\ fds' = [fds EXCEPT ![proc] = names[p].ino]
          /\ UNCHANGED <<names, nextIno>>
     ELSE /\ names' = (p :> FileEnt(nextIno)) @@ names
          /\ data' = (nextIno :> Empty) @@ data
          /\ fds' = [fds EXCEPT ![proc] = nextIno]
          /\ nextIno' = nextIno + 1
Creat(proc, p) == OpenTrunc(proc, p)

(* the i-th of n chunks of version v is written completely through proc's description *)
Write(proc, v, i, n) ==
  /\ fds[proc] # 0
  /\ data' = [data EXCEPT ![fds[proc]] = [v |-> v, done |-> i, total |-> n, pc |-> "none"]]
  /\ UNCHANGED <<names, fds, nextIno>>
(* the writer is interrupted inside that chunk: any prefix class may have reached the file *)
WriteTorn(proc, v, i, n, p) ==
  /\ fds[proc] # 0 /\ p \in PrefixClasses
  /\ data' = [data EXCEPT ![fds[proc]] =
                IF p = "p0" THEN (IF i = 1 THEN [Empty EXCEPT !.v = v, !.total = n] ELSE [v |-> v, done |-> i - 1, total |-> n, pc |-> "none"])
                ELSE [v |-> v, done |-> i - 1, total |-> n, pc |-> p]]
  /\ UNCHANGED <<names, fds, nextIno>>
Close(proc) == fds' = [fds EXCEPT ![proc] = 0] /\ UNCHANGED <<names, data, nextIno>>

(* rename(2): atomic; replaces a file or an empty directory; a directory moves with everything below it *)
Rename(src, dst) ==
  /\ RenameOutcome(src, dst) = "ok"
  /\ LET moved == Under(src)
         keep  == (DOMAIN names \ moved) \ Under(dst)
         new   == {Reprefix(m, src, dst) : m \in moved}
     IN names' = [q \in keep \cup new |-> IF q \in keep THEN names[q] ELSE names[Reprefix(q, dst, src)]]
  /\ UNCHANGED <<data, fds, nextIno>>
Unlink(p) == UnlinkOutcome(p) = "ok" /\ names' = [q \in DOMAIN names \ {p} |-> names[q]] /\ UNCHANGED <<data, fds, nextIno>>
Mkdir(p)  == MkdirOutcome(p) = "ok" /\ names' = (p :> DirEnt) @@ names /\ UNCHANGED <<data, fds, nextIno>>
Rmdir(p)  == RmdirOutcome(p) = "ok" /\ names' = [q \in DOMAIN names \ {p} |-> names[q]] /\ UNCHANGED <<data, fds, nextIno>>
(* removal of a whole subtree in one step (only used for error-ignoring clean-ups whose steps do not matter) *)
RemoveTree(p) == names' = [q \in DOMAIN names \ Under(p) |-> names[q]] /\ UNCHANGED <<data, fds, nextIno>>

OpenRead(proc, p) == OpenReadOutcome(p) = "ok" /\ fds' = [fds EXCEPT ![proc] = names[p].ino] /\ UNCHANGED <<names, data, nextIno>>
ReadAll(proc) == data[fds[proc]]          \* the value a read of the whole file returns NOW

(* process death: descriptions of the dead processes vanish, nothing else changes *)
CrashProcs(P) == fds' = [q \in DOMAIN fds |-> IF q \in P THEN 0 ELSE fds[q]] /\ UNCHANGED <<names, data, nextIno>>

(* building an initial file system from a literal sequence of entries [p |-> path, v |-> "DIR" | version token]:
   the i-th entry gets inode i *)
EntIdx(ents, p) == CHOOSE i \in 1..Len(ents) : ents[i].p = p
NamesOf(ents) == [p \in {ents[i].p : i \in 1..Len(ents)} |->
                    LET i == EntIdx(ents, p) IN IF ents[i].v = "DIR" THEN DirEnt ELSE FileEnt(i)]
DataOf(ents)  == [i \in {j \in 1..Len(ents) : ents[j].v # "DIR"} |-> Full(ents[i].v, 1)]
DiskOf(ents)  == [p \in {ents[i].p : i \in 1..Len(ents)} |-> ents[EntIdx(ents, p)].v]
=============================================================================

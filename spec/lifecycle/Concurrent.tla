----------------------------- MODULE Concurrent -----------------------------
(* C12 - concurrent processes initialise jobs and write documents without corruption.

   Processes Proc run scripts over
       proj            Project(root)
       init j          project.open_job(sp_j).init()
       set j k v       job_j.doc[k] = v           (read-modify-write of one document; implies init)
       get j           job_j.doc()                (implies init)
       len / iter      len(project) / [job.id for job in project]
       check           project.check(): list the workspace, open and validate the state point of every listed id;
                       the result is the set of ids it names as corrupted (empty: check() returned normally)
   on one project.  EVERY file-system call on a contended path (workspace directory, job directories,
   state point / document files and their temporary names) is one action of the calling process, in
   exactly the order the pinned tree issues them (recorded with harness/sched.py, DESIGN Appendix D):

     Project()            stat ws [ -> stat ws, mkdir ws [EEXIST -> stat ws] ]
     init()               open:rb sp [read sp]; valid -> done; otherwise the create path:
                          stat J [ -> stat ws [ -> mkdir ws [EEXIST -> stat ws] ], mkdir J [EEXIST -> stat J] ],
                          stat sp [absent -> open:wb tmp, write tmp, replace tmp -> sp], open:rb sp, read sp
     job.doc (1st access) stat J  [absent -> the whole init() sequence]      (skipped once the handle knows its directory
                                                                             or caches its document object)
     job.doc[k] = v       open:rb doc [read doc], open:wb tmp, write tmp, replace tmp -> doc
     job.doc()            <begin marker: the only action that is not a file-system call>, open:rb doc [read doc]
     len / iteration      listdir ws [ENOENT -> lstat ws]
     check()              listdir ws [ENOENT -> lstat ws], then per listed id (the harness's shim returns listings sorted,
                          Order below is that order): open:rb sp [read sp]; missing / invalid -> stat J [dir: corrupted | KeyError]

   so TLC explores ALL interleavings at file-system-call granularity.  The file system is a small POSIX
   model: directory flags, names -> inodes, inode contents, one temporary name per process, one open
   descriptor per process (an open descriptor keeps reading the inode it was opened on, whatever happens
   to the name afterwards).  A file is written with ONE write call (documents here are far below the
   pipe/page size), so a file is either empty (created/truncated, not yet written) or complete.

   Requirements (the property's sentences):
     NoActorError, NoTornObservation, ReadsSeeCompletedWrites, FinalSequential  (+ ListingSane, CheckSane:
     whatever a process lists or check() names AT ANY TIME is a requested job - never an id nobody asked for)

   CALIBRATED RULE CheckSeesMidInit (the documentation is silent; pinned behaviour, never flagged): a check() running
   while another process is between mkdir(job dir) and the rename of the state point names THAT job - a requested
   one - as corrupted.  It is the only way a check() of these scenarios names anything (CheckSane says so).

   Switches describe the protocol pieces; all TRUE is the pinned tree.  With one of them FALSE the module
   describes a broken protocol on which TLC must FIND a violation (model sanity, required by the driver):
     MkdirExistOk        _mkdir_p tolerates a concurrently created directory
     SaveIfAbsent        the state point is written only when the file is absent
     AtomicWrite         files are written to a temporary name and renamed over the target
     ValidateAfterWrite  init() re-reads and validates the state point after saving
     ListTolerant        the job listing treats a missing workspace as "no jobs"

   Scope: document writers act on DIFFERENT jobs (ASSUME SingleWriter); nobody removes anything. *)
EXTENDS Naturals, Sequences, FiniteSets, TLC, Json, IOUtils

CONSTANTS Scenario,            \* name of a built-in scenario below, or "file" (JSON in IOEnv.C12_SCENARIO)
          MkdirExistOk, SaveIfAbsent, AtomicWrite, ValidateAfterWrite, ListTolerant

-----------------------------------------------------------------------------
(* scripts *)
OProj       == [op |-> "proj", j |-> "-", k |-> "-", v |-> "-"]
OInit(j)    == [op |-> "init", j |-> j,   k |-> "-", v |-> "-"]
OSet(j,k,v) == [op |-> "set",  j |-> j,   k |-> k,   v |-> v]
OGet(j)     == [op |-> "get",  j |-> j,   k |-> "-", v |-> "-"]
OLen        == [op |-> "len",  j |-> "-", k |-> "-", v |-> "-"]
OIter       == [op |-> "iter", j |-> "-", k |-> "-", v |-> "-"]
OCheck      == [op |-> "check", j |-> "-", k |-> "-", v |-> "-"]

NoDoc == [x \in {} |-> {}]
SS(script, ws, jobs, jobs0, doc0, pre, big) ==
  [script |-> script, ws |-> ws, jobs |-> jobs, jobs0 |-> jobs0, doc0 |-> doc0, pre |-> pre, big |-> big]
S(script, ws, jobs, jobs0, doc0, pre) == SS(script, ws, jobs, jobs0, doc0, pre, FALSE)

(* ws: the workspace directory exists initially; jobs0: jobs that exist (valid) initially; doc0: their
   documents (only jobs with a document file); pre: processes holding a Project handle made earlier
   (their script has no "proj" and they never looked at the workspace directory);
   big: a hint for the binding only - every document value is materialised as a string of >= 16 KiB and all values
   have the SAME length, so successive versions of a document have the same serialized size (and, because the harness
   gives every completed document file the same whole-second time stamp, the same mtime: a coarse-timestamp file
   system).  Sizes and time stamps are metadata the property does not speak about: the model is unchanged, every
   handle is long-lived (one per process and job), and ReadsSeeCompletedWrites says what each read must return. *)
Builtin(n) ==
  CASE n = "init_same" ->        \* two processes initialise the same job; the workspace exists and is empty
         S([p1 |-> <<OProj, OInit("j1"), OLen>>, p2 |-> <<OProj, OInit("j1"), OLen>>], TRUE, {"j1"}, {}, NoDoc, {})
    [] n = "init_same_nows" ->   \* ... and the workspace directory itself does not exist yet
         S([p1 |-> <<OProj, OInit("j1"), OLen>>, p2 |-> <<OProj, OInit("j1"), OLen>>], FALSE, {"j1"}, {}, NoDoc, {})
    [] n = "init_diff" ->        \* different jobs, no workspace yet
         S([p1 |-> <<OProj, OInit("j1"), OIter>>, p2 |-> <<OProj, OInit("j2"), OIter>>], FALSE, {"j1", "j2"}, {}, NoDoc, {})
    [] n = "init_populated" ->   \* the job already exists; a second job is created next to it
         S([p1 |-> <<OProj, OInit("j1"), OInit("j2"), OLen>>, p2 |-> <<OProj, OInit("j2"), OInit("j1"), OLen>>],
           TRUE, {"j1", "j2"}, {"j1"}, [j1 |-> {<<"x", "0">>}], {})
    [] n = "init_vs_list" ->     \* one initialises while the other counts and iterates
         S([p1 |-> <<OProj, OInit("j1"), OInit("j2")>>, p2 |-> <<OProj, OLen, OIter, OLen>>], TRUE, {"j1", "j2"}, {}, NoDoc, {})
    [] n = "list_nows" ->        \* a process that already holds a Project lists while the workspace is being created
         S([p1 |-> <<OProj, OInit("j1")>>, p2 |-> <<OLen, OIter, OInit("j1"), OLen>>], FALSE, {"j1"}, {}, NoDoc, {"p2"})
    [] n = "doc_writers" ->      \* writers on different (existing) jobs, each reads the other's document
         S([p1 |-> <<OProj, OSet("j1", "a", "1"), OGet("j2"), OGet("j1")>>, p2 |-> <<OProj, OSet("j2", "b", "2"), OGet("j1"), OGet("j2")>>],
           TRUE, {"j1", "j2"}, {"j1", "j2"}, [j1 |-> {<<"x", "0">>}], {})
    [] n = "doc_writers_fresh" ->\* the same from an empty workspace: the document access creates the job (racing with the reader)
         S([p1 |-> <<OProj, OSet("j1", "a", "1"), OGet("j2")>>, p2 |-> <<OProj, OSet("j2", "b", "2"), OGet("j1")>>],
           TRUE, {"j1", "j2"}, {}, NoDoc, {})
    [] n = "reader_sees" ->      \* one writer (two writes, the second overwrites a key), one reader reading twice
         S([p1 |-> <<OProj, OSet("j1", "k", "1"), OSet("j1", "k", "2")>>, p2 |-> <<OProj, OGet("j1"), OGet("j1")>>],
           TRUE, {"j1"}, {"j1"}, [j1 |-> {<<"x", "0">>}], {})
    [] n = "reader_sees_big" ->  \* large same-size versions: a long-lived reader handle reads before / between / after the completed writes
         SS([p1 |-> <<OProj, OSet("j1", "k", "1"), OSet("j1", "k", "2")>>, p2 |-> <<OProj, OGet("j1"), OGet("j1"), OGet("j1")>>],
            TRUE, {"j1"}, {"j1"}, [j1 |-> {<<"k", "0">>}], {}, TRUE)
    [] n = "doc_writers_big" ->  \* the same with writers on different jobs, each re-reading the other's large document
         SS([p1 |-> <<OProj, OSet("j1", "k", "1"), OGet("j2"), OSet("j1", "k", "2")>>,
             p2 |-> <<OProj, OGet("j1"), OSet("j2", "k", "1"), OGet("j1")>>],
            TRUE, {"j1", "j2"}, {"j1", "j2"}, [j1 |-> {<<"k", "0">>}, j2 |-> {<<"k", "0">>}], {}, TRUE)
    [] n = "init_doc_mix" ->     \* initialise + write on one side, read + initialise on the other, same job, nothing exists
         S([p1 |-> <<OProj, OInit("j1"), OSet("j1", "k", "1")>>, p2 |-> <<OProj, OGet("j1"), OInit("j1"), OGet("j1")>>],
           FALSE, {"j1"}, {}, NoDoc, {})
    [] n = "init_same_check" -> \* same job; the one that has finished counts, iterates and validates while the other may be mid-init
         S([p1 |-> <<OProj, OInit("j1"), OLen, OIter, OCheck>>, p2 |-> <<OProj, OInit("j1"), OCheck>>], TRUE, {"j1"}, {}, NoDoc, {})
    [] n = "init_diff_check" -> \* different jobs (one exists already): listings and check() while the neighbour is being created
         S([p1 |-> <<OProj, OInit("j1"), OLen, OCheck>>, p2 |-> <<OProj, OInit("j2"), OIter, OCheck>>], TRUE, {"j1", "j2", "j3"}, {"j3"}, NoDoc, {})
    [] n = "init_same_3" ->      \* three processes, same job, no workspace (sampled with -simulate)
         S([p1 |-> <<OProj, OInit("j1"), OLen>>, p2 |-> <<OProj, OInit("j1"), OLen>>, p3 |-> <<OProj, OInit("j1"), OIter>>],
           FALSE, {"j1"}, {}, NoDoc, {})
    [] n = "doc_3" ->            \* two writers on different jobs and a reader of both documents
         S([p1 |-> <<OProj, OSet("j1", "a", "1"), OSet("j1", "b", "2")>>, p2 |-> <<OProj, OSet("j2", "c", "3"), OGet("j1")>>,
            p3 |-> <<OProj, OGet("j1"), OGet("j2"), OGet("j1")>>], TRUE, {"j1", "j2"}, {"j2"}, NoDoc, {})
    [] n = "mixed_3" ->          \* three processes: same job, different job, listing, a pre-opened handle
         S([p1 |-> <<OProj, OInit("j1"), OSet("j1", "a", "1")>>, p2 |-> <<OProj, OInit("j2"), OInit("j1"), OLen>>,
            p3 |-> <<OIter, OGet("j1"), OLen>>], FALSE, {"j1", "j2"}, {}, NoDoc, {"p3"})

SeqToSet(s) == {s[i] : i \in DOMAIN s}
FromJson(r) ==
  [script |-> [p \in DOMAIN r.procs |->
                 [i \in 1..Len(r.procs[p]) |-> LET o == r.procs[p][i] IN [op |-> o[1], j |-> o[2], k |-> o[3], v |-> o[4]]]],
   ws |-> r.ws, jobs |-> SeqToSet(r.jobs), jobs0 |-> SeqToSet(r.jobs0),
   doc0 |-> [j \in DOMAIN r.doc0 |-> {<<r.doc0[j][i][1], r.doc0[j][i][2]>> : i \in 1..Len(r.doc0[j])}],
   pre |-> SeqToSet(r.pre), big |-> r.big]

Scn    == IF Scenario = "file" THEN FromJson(ndJsonDeserialize(IOEnv.C12_SCENARIO)[1]) ELSE Builtin(Scenario)
Script == Scn.script
Proc   == DOMAIN Script
Jobs   == Scn.jobs
Ops(p) == {Script[p][i] : i \in 1..Len(Script[p])}

Writers(j) == {p \in Proc : \E o \in Ops(p) : o.op = "set" /\ o.j = j}
ASSUME SingleWriter == \A j \in Jobs : Cardinality(Writers(j)) <= 1        \* scope note (ii) of DESIGN 5 C12
ASSUME WellFormed   == /\ Scn.jobs0 \subseteq Jobs /\ DOMAIN Scn.doc0 \subseteq Scn.jobs0
                       /\ (Scn.jobs0 # {} => Scn.ws)
                       /\ \A p \in Proc : \A o \in Ops(p) : o.j \in Jobs \cup {"-"}
                       /\ \A p \in Proc : (p \in Scn.pre) = ~(\E o \in Ops(p) : o.op = "proj")
                       /\ \A p \in Proc \ Scn.pre : Len(Script[p]) > 0 /\ Script[p][1].op = "proj"

-----------------------------------------------------------------------------
(* values *)
NoIno      == <<"-", 0, "-">>                  \* inode ids are <<creator, op index, kind>>: independent of the interleaving
Empty      == [full |-> FALSE, v |-> {}]
Full(v)    == [full |-> TRUE, v |-> v]
SpVal(j)   == {<<"sp", j>>}
NoTmp      == [ino |-> NoIno, j |-> "-", kind |-> "-"]
Put(d, k, v) == {pr \in d : pr[1] # k} \cup {<<k, v>>}
JobSet(js) == {<<"job", j>> : j \in js}

VARIABLES st, last
vars == <<st, last>>
(* st.wsdir              the workspace directory exists
   st.jdir[j]            job directory exists           st.spf[j], st.docf[j]   inode behind the name (NoIno: no such name)
   st.tmp[p]             the temporary name of p: [ino, j, kind]              st.data[ino]  [full, v]
   st.fd[p]              inode of p's open descriptor   st.pc[p] = [i, l]     st.dk[p]      jobs whose handle skips the directory check
   st.ck[p]              a running check(): [todo: listed jobs still to validate, bad: jobs found corrupted]
   st.lv[p]              document value loaded by the running operation        st.h0[p]      #completed writes when p's read began
   st.res[p]             "run" | "ok" | exception name   st.rets[p]            results of get / len / iter in script order
   st.hist[j]            history: values of the document of j, initial value first, then every COMPLETED write (at its rename)
   st.reads              history: [p, j, val, lo, hi] per completed document read
   last                  observation: the step just taken - [p, op, obj, j, out, val] *)

\* the order in which a (sorted) listing presents the jobs: the harness chooses state points whose ids sort like the names
Order == <<"j1", "j2", "j3">>
ASSUME Jobs \subseteq {Order[i] : i \in 1..Len(Order)}
Listed(s) == SelectSeq(Order, LAMBDA j : j \in Jobs /\ s.jdir[j])
SeqSet(q) == {q[i] : i \in 1..Len(q)}

Requested == Scn.jobs0 \cup {o.j : o \in UNION {{x \in Ops(p) : x.op \in {"init", "set", "get"}} : p \in Proc}}

First(o, dkp) ==
  CASE o.op = "proj" -> "pj_stat"
    [] o.op = "init" -> "in_open"
    [] o.op = "get" -> "gt_begin"
    [] o.op = "set" -> IF o.j \in dkp THEN "dc_open" ELSE "dv_stat"
    [] o.op \in {"len", "iter"} -> "ls_list"
    [] o.op = "check" -> "ck_list"

Init ==
  /\ st = [wsdir |-> Scn.ws,
           jdir  |-> [j \in Jobs |-> j \in Scn.jobs0],
           spf   |-> [j \in Jobs |-> IF j \in Scn.jobs0 THEN <<j, 0, "sp">> ELSE NoIno],
           docf  |-> [j \in Jobs |-> IF j \in DOMAIN Scn.doc0 THEN <<j, 0, "doc">> ELSE NoIno],
           tmp   |-> [p \in Proc |-> NoTmp],
           data  |-> [x \in {<<j, 0, "sp">> : j \in Scn.jobs0} \cup {<<j, 0, "doc">> : j \in DOMAIN Scn.doc0} |->
                        IF x[3] = "sp" THEN Full(SpVal(x[1])) ELSE Full(Scn.doc0[x[1]])],
           fd    |-> [p \in Proc |-> NoIno],
           pc    |-> [p \in Proc |-> IF Len(Script[p]) = 0 THEN [i |-> 1, l |-> "done"] ELSE [i |-> 1, l |-> First(Script[p][1], {})]],
           dk    |-> [p \in Proc |-> {}],
           lv    |-> [p \in Proc |-> {}],
           ck    |-> [p \in Proc |-> [todo |-> <<>>, bad |-> {}]],
           h0    |-> [p \in Proc |-> 0],
           res   |-> [p \in Proc |-> IF Len(Script[p]) = 0 THEN "ok" ELSE "run"],
           rets  |-> [p \in Proc |-> <<>>],
           hist  |-> [j \in Jobs |-> <<IF j \in DOMAIN Scn.doc0 THEN Scn.doc0[j] ELSE {}>>],
           reads |-> {}]
  /\ last = [p |-> "-", op |-> "init", obj |-> "-", j |-> "-", out |-> "ok", val |-> {}]

-----------------------------------------------------------------------------
(* helpers: all take and return a whole state record *)
Cur(p)   == Script[p][st.pc[p].i]
At(p, l) == st.pc[p].l = l
Refs(s)  == ({s.spf[j] : j \in Jobs} \cup {s.docf[j] : j \in Jobs} \cup {s.tmp[p].ino : p \in Proc} \cup {s.fd[p] : p \in Proc}) \ {NoIno}
GC(s)    == [s EXCEPT !.data = [x \in Refs(s) |-> s.data[x]]]        \* an inode without name and descriptor is gone
Go(s, p, l)   == [s EXCEPT !.pc[p].l = l]
Fail(s, p, e) == [s EXCEPT !.pc[p].l = "done", !.res[p] = e]
Ret(s, p, v)  == [s EXCEPT !.rets[p] = Append(@, v)]
Adv(s, p) ==
  LET i2 == s.pc[p].i + 1 IN
  IF i2 > Len(Script[p]) THEN [s EXCEPT !.pc[p] = [i |-> i2, l |-> "done"], !.res[p] = "ok"]
  ELSE [s EXCEPT !.pc[p] = [i |-> i2, l |-> First(Script[p][i2], s.dk[p])]]
Known(s, p, j)  == [s EXCEPT !.dk[p] = @ \cup {j}]
\* a document access goes on to load the document; the handle now caches its document object, which (like
\* _directory_known) makes later document accesses skip the directory check - both facts live in dk
AfterInit(s, p) == IF Cur(p).op = "init" THEN Adv(s, p) ELSE Go(Known(s, p, Cur(p).j), p, "dc_open")
SaveEntry       == IF SaveIfAbsent THEN "sv_stat" ELSE "sv_creat"
ValEntry(s, p)  == IF ValidateAfterWrite THEN Go(s, p, "va_open") ELSE AfterInit(s, p)
Obs(p, op, obj, j, out, val) == last' = [p |-> p, op |-> op, obj |-> obj, j |-> j, out |-> out, val |-> val]
Commit(s) == st' = GC(s)

-----------------------------------------------------------------------------
(* Project(root): signac/project.py Project.__init__ -> _mkdir_p(workspace) *)
PjStat(p) == /\ At(p, "pj_stat")                                   \* os.path.isdir(workspace)
             /\ Commit(IF st.wsdir THEN Adv(st, p) ELSE Go(st, p, "pj_stat2"))
             /\ Obs(p, "stat", "ws", "-", IF st.wsdir THEN "ok" ELSE "ENOENT", {})
PjStat2(p) == /\ At(p, "pj_stat2")                                 \* _mkdir_p: isdir(workspace) again
              /\ Commit(IF st.wsdir THEN Adv(st, p) ELSE Go(st, p, "pj_mkdir"))
              /\ Obs(p, "stat", "ws", "-", IF st.wsdir THEN "ok" ELSE "ENOENT", {})
PjMkdir(p) == /\ At(p, "pj_mkdir")                                 \* os.makedirs(workspace, exist_ok=True): mkdir
              /\ IF st.wsdir
                 THEN /\ Commit(IF MkdirExistOk THEN Go(st, p, "pj_eexist") ELSE Fail(st, p, "FileExistsError"))
                      /\ Obs(p, "mkdir", "ws", "-", "EEXIST", {})
                 ELSE /\ Commit(Adv([st EXCEPT !.wsdir = TRUE], p))
                      /\ Obs(p, "mkdir", "ws", "-", "ok", {})
PjEexist(p) == /\ At(p, "pj_eexist")                               \* exist_ok: isdir(workspace)
               /\ Commit(Adv(st, p)) /\ Obs(p, "stat", "ws", "-", "ok", {})

(* init(): signac/job.py Job.init -> _StatePointDict.load / _mkdir_p / save / load *)
InOpen(p) == /\ At(p, "in_open")                                   \* statepoint.load: open(sp, "rb")
             /\ LET j == Cur(p).j IN
                IF st.jdir[j] /\ st.spf[j] # NoIno
                THEN Commit(Go([st EXCEPT !.fd[p] = st.spf[j]], p, "in_read")) /\ Obs(p, "open:rb", "sp", j, "ok", {})
                ELSE Commit(Go(st, p, "mk_stat")) /\ Obs(p, "open:rb", "sp", j, "ENOENT", {})
InRead(p) == /\ At(p, "in_read")                                   \* read + validate: valid -> init() returns
             /\ LET j == Cur(p).j   c == st.data[st.fd[p]]   s1 == [st EXCEPT !.fd[p] = NoIno] IN
                IF c = Full(SpVal(j))
                THEN Commit(AfterInit(s1, p)) /\ Obs(p, "read", "sp", j, "ok", c.v)
                ELSE Commit(Go(s1, p, "mk_stat")) /\ Obs(p, "read", "sp", j, "torn", c.v)   \* any exception -> create path
MkStat(p) == /\ At(p, "mk_stat")                                   \* _mkdir_p(job dir): isdir
             /\ LET j == Cur(p).j IN
                IF st.jdir[j] THEN Commit(Go(Known(st, p, j), p, SaveEntry)) /\ Obs(p, "stat", "dir", j, "ok", {})
                ELSE Commit(Go(st, p, "mk_stat_ws")) /\ Obs(p, "stat", "dir", j, "ENOENT", {})
MkStatWs(p) == /\ At(p, "mk_stat_ws")                              \* makedirs: exists(head)
               /\ Commit(Go(st, p, IF st.wsdir THEN "mk_mkdir" ELSE "mk_mkdir_ws"))
               /\ Obs(p, "stat", "ws", "-", IF st.wsdir THEN "ok" ELSE "ENOENT", {})
MkMkdirWs(p) == /\ At(p, "mk_mkdir_ws")                            \* recursive makedirs(head): mkdir workspace
                /\ IF st.wsdir    \* FileExistsError of the recursive call is swallowed by makedirs itself
                   THEN Commit(Go(st, p, IF MkdirExistOk THEN "mk_eexist_ws" ELSE "mk_mkdir")) /\ Obs(p, "mkdir", "ws", "-", "EEXIST", {})
                   ELSE Commit(Go([st EXCEPT !.wsdir = TRUE], p, "mk_mkdir")) /\ Obs(p, "mkdir", "ws", "-", "ok", {})
MkEexistWs(p) == /\ At(p, "mk_eexist_ws") /\ Commit(Go(st, p, "mk_mkdir")) /\ Obs(p, "stat", "ws", "-", "ok", {})
MkMkdir(p) == /\ At(p, "mk_mkdir")                                 \* mkdir(job dir)
              /\ LET j == Cur(p).j IN
                 IF ~st.wsdir THEN Commit(Fail(st, p, "FileNotFoundError")) /\ Obs(p, "mkdir", "dir", j, "ENOENT", {})
                 ELSE IF st.jdir[j]
                 THEN /\ Commit(IF MkdirExistOk THEN Go(st, p, "mk_eexist") ELSE Fail(st, p, "FileExistsError"))
                      /\ Obs(p, "mkdir", "dir", j, "EEXIST", {})
                 ELSE Commit(Go(Known([st EXCEPT !.jdir[j] = TRUE], p, j), p, SaveEntry)) /\ Obs(p, "mkdir", "dir", j, "ok", {})
MkEexist(p) == /\ At(p, "mk_eexist")                               \* exist_ok: isdir(job dir)
               /\ Commit(Go(Known(st, p, Cur(p).j), p, SaveEntry)) /\ Obs(p, "stat", "dir", Cur(p).j, "ok", {})
SvStat(p) == /\ At(p, "sv_stat")                                   \* save(): os.path.isfile(sp) - save only if absent
             /\ LET j == Cur(p).j IN
                IF st.spf[j] # NoIno THEN Commit(ValEntry(st, p)) /\ Obs(p, "stat", "sp", j, "ok", {})
                ELSE Commit(Go(st, p, "sv_creat")) /\ Obs(p, "stat", "sp", j, "ENOENT", {})
SvCreat(p) == /\ At(p, "sv_creat")
              /\ LET j == Cur(p).j   ino == <<p, st.pc[p].i, "sp">> IN
                 IF AtomicWrite                                     \* open(<dir>/._<uuid>_sp, "wb")
                 THEN /\ Commit(Go([st EXCEPT !.tmp[p] = [ino |-> ino, j |-> j, kind |-> "sp"], !.data = (ino :> Empty) @@ @], p, "sv_write"))
                      /\ Obs(p, "open:wb", "tmpsp", j, "ok", {})
                 ELSE /\ IF st.spf[j] = NoIno                       \* open(sp, "wb") in place: create or truncate
                         THEN Commit(Go([st EXCEPT !.spf[j] = ino, !.fd[p] = ino, !.data = (ino :> Empty) @@ @], p, "sv_write"))
                         ELSE Commit(Go([st EXCEPT !.fd[p] = st.spf[j], !.data[st.spf[j]] = Empty], p, "sv_write"))
                      /\ Obs(p, "open:wb", "sp", j, "ok", {})
SvWrite(p) == /\ At(p, "sv_write")
              /\ LET j == Cur(p).j IN
                 IF AtomicWrite
                 THEN Commit(Go([st EXCEPT !.data[st.tmp[p].ino] = Full(SpVal(j))], p, "sv_rename")) /\ Obs(p, "write", "tmpsp", j, "ok", {})
                 ELSE Commit(ValEntry([st EXCEPT !.data[st.fd[p]] = Full(SpVal(j)), !.fd[p] = NoIno], p)) /\ Obs(p, "write", "sp", j, "ok", {})
SvRename(p) == /\ At(p, "sv_rename")                               \* os.replace(tmp, sp)
               /\ LET j == Cur(p).j IN
                  Commit(ValEntry([st EXCEPT !.spf[j] = st.tmp[p].ino, !.tmp[p] = NoTmp], p)) /\ Obs(p, "replace", "sp", j, "ok", {})
VaOpen(p) == /\ At(p, "va_open")                                   \* validate after write: open(sp, "rb")
             /\ LET j == Cur(p).j IN
                IF st.spf[j] = NoIno THEN Commit(Fail(st, p, "JobsCorruptedError")) /\ Obs(p, "open:rb", "sp", j, "ENOENT", {})
                ELSE Commit(Go([st EXCEPT !.fd[p] = st.spf[j]], p, "va_read")) /\ Obs(p, "open:rb", "sp", j, "ok", {})
VaRead(p) == /\ At(p, "va_read")
             /\ LET j == Cur(p).j   c == st.data[st.fd[p]]   s1 == [st EXCEPT !.fd[p] = NoIno] IN
                IF c = Full(SpVal(j)) THEN Commit(AfterInit(s1, p)) /\ Obs(p, "read", "sp", j, "ok", c.v)
                ELSE Commit(Fail(s1, p, "JobsCorruptedError")) /\ Obs(p, "read", "sp", j, "torn", c.v)

(* The caller's read of a document BEGINS here (not a file-system call: a marker the harness gates, so that "a read
   that starts after a write completed" is decidable also for an implementation that would answer from memory) *)
GtBegin(p) == /\ At(p, "gt_begin")
              /\ LET j == Cur(p).j IN
                 /\ Commit(Go([st EXCEPT !.h0[p] = Len(st.hist[j])], p, IF j \in st.dk[p] THEN "dc_open" ELSE "dv_stat"))
                 /\ Obs(p, "begin", "get", j, "ok", {})

(* job.doc: first access runs init(validate_statepoint=False): early exit when the directory exists *)
DvStat(p) == /\ At(p, "dv_stat")
             /\ LET j == Cur(p).j IN
                IF st.jdir[j] THEN Commit(Go(Known(st, p, j), p, "dc_open")) /\ Obs(p, "stat", "dir", j, "ok", {})
                ELSE Commit(Go(st, p, "in_open")) /\ Obs(p, "stat", "dir", j, "ENOENT", {})
DcOpen(p) == /\ At(p, "dc_open")                                   \* document load: open(doc, "rb"); ENOENT = no document yet
             /\ LET j == Cur(p).j   n == Len(st.hist[j])
                    lo == IF Cur(p).op = "get" THEN st.h0[p] ELSE n IN      \* a get began at its marker, a read-modify-write's load here
                IF st.docf[j] # NoIno
                THEN Commit(Go([st EXCEPT !.fd[p] = st.docf[j], !.h0[p] = lo], p, "dc_read")) /\ Obs(p, "open:rb", "doc", j, "ok", {})
                ELSE /\ Obs(p, "open:rb", "doc", j, "ENOENT", {})
                     /\ IF Cur(p).op = "get"
                        THEN Commit(Adv(Ret([st EXCEPT !.h0[p] = 0, !.reads = @ \cup {[p |-> p, j |-> j, val |-> {}, lo |-> lo, hi |-> n]}], p, {}), p))
                        ELSE Commit(Go([st EXCEPT !.lv[p] = {}], p, "dw_creat"))
DcRead(p) == /\ At(p, "dc_read")
             /\ LET j == Cur(p).j   c == st.data[st.fd[p]]
                    s1 == [st EXCEPT !.fd[p] = NoIno, !.h0[p] = 0,
                                     !.reads = @ \cup {[p |-> p, j |-> j, val |-> c.v, lo |-> st.h0[p], hi |-> Len(st.hist[j])]}] IN
                IF ~c.full THEN Commit(Fail([st EXCEPT !.fd[p] = NoIno, !.h0[p] = 0], p, "JSONDecodeError")) /\ Obs(p, "read", "doc", j, "torn", c.v)
                ELSE /\ Obs(p, "read", "doc", j, "ok", c.v)
                     /\ IF Cur(p).op = "get" THEN Commit(Adv(Ret(s1, p, c.v), p))
                        ELSE Commit(Go([s1 EXCEPT !.lv[p] = c.v], p, "dw_creat"))
DwCreat(p) == /\ At(p, "dw_creat")
              /\ LET j == Cur(p).j   ino == <<p, st.pc[p].i, "doc">> IN
                 IF AtomicWrite
                 THEN /\ Commit(Go([st EXCEPT !.tmp[p] = [ino |-> ino, j |-> j, kind |-> "doc"], !.data = (ino :> Empty) @@ @], p, "dw_write"))
                      /\ Obs(p, "open:wb", "tmpdoc", j, "ok", {})
                 ELSE /\ IF st.docf[j] = NoIno
                         THEN Commit(Go([st EXCEPT !.docf[j] = ino, !.fd[p] = ino, !.data = (ino :> Empty) @@ @], p, "dw_write"))
                         ELSE Commit(Go([st EXCEPT !.fd[p] = st.docf[j], !.data[st.docf[j]] = Empty], p, "dw_write"))
                      /\ Obs(p, "open:wb", "doc", j, "ok", {})
DwWrite(p) == /\ At(p, "dw_write")
              /\ LET j == Cur(p).j   nv == Put(st.lv[p], Cur(p).k, Cur(p).v) IN
                 IF AtomicWrite
                 THEN Commit(Go([st EXCEPT !.data[st.tmp[p].ino] = Full(nv)], p, "dw_rename")) /\ Obs(p, "write", "tmpdoc", j, "ok", {})
                 ELSE /\ Commit(Adv([st EXCEPT !.data[st.fd[p]] = Full(nv), !.fd[p] = NoIno, !.lv[p] = {}, !.hist[j] = Append(@, nv)], p))
                      /\ Obs(p, "write", "doc", j, "ok", {})
DwRename(p) == /\ At(p, "dw_rename")                               \* os.replace(tmp, doc): the write is COMPLETE here
               /\ LET j == Cur(p).j   nv == st.data[st.tmp[p].ino].v IN
                  /\ Commit(Adv([st EXCEPT !.docf[j] = st.tmp[p].ino, !.tmp[p] = NoTmp, !.lv[p] = {}, !.hist[j] = Append(@, nv)], p))
                  /\ Obs(p, "replace", "doc", j, "ok", {})

(* len(project) / iteration: signac/project.py _job_dirs *)
LsList(p) == /\ At(p, "ls_list")
             /\ IF st.wsdir
                THEN LET v == JobSet({j \in Jobs : st.jdir[j]}) IN Commit(Adv(Ret(st, p, v), p)) /\ Obs(p, "listdir", "ws", "-", "ok", v)
                ELSE /\ Commit(IF ListTolerant THEN Go(st, p, "ls_lstat") ELSE Fail(st, p, "WorkspaceError"))
                     /\ Obs(p, "listdir", "ws", "-", "ENOENT", {})
LsLstat(p) == /\ At(p, "ls_lstat")                                 \* ENOENT: islink(workspace)? no -> no jobs
              /\ Commit(Adv(Ret(st, p, {}), p)) /\ Obs(p, "lstat", "ws", "-", IF st.wsdir THEN "ok" ELSE "ENOENT", {})

(* project.check(): _find_job_ids() then _get_statepoint_from_workspace(id) for every listed id *)
CkNext(s, p) ==      \* the head of todo is dealt with
  LET rest == Tail(s.ck[p].todo) IN
  IF rest = <<>> THEN Adv(Ret([s EXCEPT !.ck[p] = [todo |-> <<>>, bad |-> {}]], p, JobSet(s.ck[p].bad)), p)
  ELSE Go([s EXCEPT !.ck[p].todo = rest], p, "ck_open")
CkList(p) == /\ At(p, "ck_list")
             /\ IF st.wsdir
                THEN LET l == Listed(st) IN
                     /\ Obs(p, "listdir", "ws", "-", "ok", JobSet(SeqSet(l)))
                     /\ Commit(IF l = <<>> THEN Adv(Ret(st, p, {}), p) ELSE Go([st EXCEPT !.ck[p] = [todo |-> l, bad |-> {}]], p, "ck_open"))
                ELSE /\ Commit(IF ListTolerant THEN Go(st, p, "ls_lstat") ELSE Fail(st, p, "WorkspaceError"))
                     /\ Obs(p, "listdir", "ws", "-", "ENOENT", {})
CkOpen(p) == /\ At(p, "ck_open")
             /\ LET j == Head(st.ck[p].todo) IN
                IF st.jdir[j] /\ st.spf[j] # NoIno
                THEN Commit(Go([st EXCEPT !.fd[p] = st.spf[j]], p, "ck_read")) /\ Obs(p, "open:rb", "sp", j, "ok", {})
                ELSE Commit(Go(st, p, "ck_isdir")) /\ Obs(p, "open:rb", "sp", j, "ENOENT", {})
CkRead(p) == /\ At(p, "ck_read")
             /\ LET j == Head(st.ck[p].todo)   c == st.data[st.fd[p]]   s1 == [st EXCEPT !.fd[p] = NoIno] IN
                IF c = Full(SpVal(j)) THEN Commit(CkNext(s1, p)) /\ Obs(p, "read", "sp", j, "ok", c.v)
                ELSE Commit(Go(s1, p, "ck_isdir")) /\ Obs(p, "read", "sp", j, "torn", c.v)
CkIsdir(p) == /\ At(p, "ck_isdir")                                 \* state point unreadable: a directory -> corrupted, else KeyError
              /\ LET j == Head(st.ck[p].todo) IN
                 IF st.jdir[j] THEN Commit(CkNext([st EXCEPT !.ck[p].bad = @ \cup {j}], p)) /\ Obs(p, "stat", "dir", j, "ok", {})
                 ELSE Commit(Fail(st, p, "KeyError")) /\ Obs(p, "stat", "dir", j, "ENOENT", {})

Step(p) == \/ CkList(p) \/ CkOpen(p) \/ CkRead(p) \/ CkIsdir(p) \/ GtBegin(p) \/ PjStat(p) \/ PjStat2(p) \/ PjMkdir(p) \/ PjEexist(p)
           \/ InOpen(p) \/ InRead(p) \/ MkStat(p) \/ MkStatWs(p) \/ MkMkdirWs(p) \/ MkEexistWs(p) \/ MkMkdir(p) \/ MkEexist(p)
           \/ SvStat(p) \/ SvCreat(p) \/ SvWrite(p) \/ SvRename(p) \/ VaOpen(p) \/ VaRead(p)
           \/ DvStat(p) \/ DcOpen(p) \/ DcRead(p) \/ DwCreat(p) \/ DwWrite(p) \/ DwRename(p)
           \/ LsList(p) \/ LsLstat(p)
Next == \E p \in Proc : Step(p)
Spec == Init /\ [][Next]_vars

-----------------------------------------------------------------------------
(* the property *)
AllDone == \A p \in Proc : st.pc[p].l = "done"

\* "every process completes without error"
NoActorError == \A p \in Proc : st.res[p] \in {"run", "ok"}

\* "no process ever observes a torn state point or document": every read step returns a value some write completed
NoTornObservation ==
  /\ last.out # "torn"
  /\ \A r \in st.reads : \E m \in 1..r.hi : st.hist[r.j][m] = r.val

\* "a document write completed by one process is seen by every later read in any process":
\* a read that began when lo values had been completed returns the lo-th value or a later one
ReadsSeeCompletedWrites == \A r \in st.reads : \E m \in r.lo..r.hi : st.hist[r.j][m] = r.val

\* a listing never invents a job and never misses one that existed before anybody started
ListingSane == (last.op = "listdir" /\ last.out = "ok") => /\ last.val \subseteq JobSet(Requested)
                                                           /\ JobSet(Scn.jobs0) \subseteq last.val

\* whatever check() names at any time is a requested job (by CheckSeesMidInit: one that was mid-initialisation)
CheckSane == /\ \A p \in Proc : st.ck[p].bad \subseteq Requested
             /\ \A p \in Proc : \A i \in 1..Len(st.rets[p]) : \A x \in st.rets[p][i] : x[1] = "job" => x[2] \in Requested

\* the document some sequential execution produces: with a single writer process per document (SingleWriter) every
\* sequential order of the processes applies that process's writes in program order to the initial value
RECURSIVE Fold(_, _, _, _)
Fold(p, j, i, d) == IF i > Len(Script[p]) THEN d
                    ELSE LET o == Script[p][i] IN Fold(p, j, i + 1, IF o.op = "set" /\ o.j = j THEN Put(d, o.k, o.v) ELSE d)
Doc0(j)   == IF j \in DOMAIN Scn.doc0 THEN Scn.doc0[j] ELSE {}
SeqDoc(j) == IF Writers(j) = {} THEN Doc0(j) ELSE Fold(CHOOSE p \in Writers(j) : TRUE, j, 1, Doc0(j))
HasDocFile(j) == j \in DOMAIN Scn.doc0 \/ Writers(j) # {}
WsExpected == Scn.ws \/ \E p \in Proc : \E o \in Ops(p) : o.op \in {"proj", "init", "set", "get"}

\* "once all have finished the workspace passes check() and holds exactly the requested jobs with the content some
\*  sequential execution would produce"
FinalSequential ==
  AllDone =>
    /\ \A p \in Proc : st.res[p] = "ok"
    /\ st.wsdir = WsExpected
    /\ {j \in Jobs : st.jdir[j]} = Requested                                                        \* exactly the requested jobs
    /\ \A j \in Requested : st.spf[j] # NoIno /\ st.data[st.spf[j]] = Full(SpVal(j))               \* check() passes
    /\ \A p \in Proc : st.tmp[p] = NoTmp /\ st.fd[p] = NoIno                                        \* nothing else in the job directories
    /\ \A j \in Jobs : IF HasDocFile(j) THEN st.docf[j] # NoIno /\ st.data[st.docf[j]] = Full(SeqDoc(j)) ELSE st.docf[j] = NoIno

\* what the harness needs to know about the scenario and the expected end result (printed once, parsed by the driver)
Describe == [scenario |-> Scenario, script |-> Script, ws |-> Scn.ws, jobs |-> Jobs, jobs0 |-> Scn.jobs0,
             doc0 |-> [j \in Jobs |-> Doc0(j)], hasdoc0 |-> DOMAIN Scn.doc0, pre |-> Scn.pre, big |-> Scn.big,
             requested |-> Requested, seqdoc |-> [j \in Jobs |-> SeqDoc(j)], hasdoc |-> {j \in Jobs : HasDocFile(j)},
             wsfinal |-> WsExpected]
ASSUME PrintT(<<"C12-SCENARIO", Describe>>)
=============================================================================

------------------------------ MODULE Lifecycle ------------------------------
(* C10 / C11: signac's write protocols and life-cycle operations as step sequences over PosixFs,
   exactly as the pinned tree performs them (recorded with harness/fsshim.py in record mode and validated
   by LifecycleTrace.tla), with three outcomes for every file-system step:
       ok | Crash before it (CrashTorn: inside a write) | failure with an errno followed by the code's handler.

   A protocol is DATA: a function  label -> instruction;  one interpreter (the Do* actions) executes it.
   instruction = [op, a, b, v, i, n, ok, ee, en, er, q]
       op  "rename" "unlink" "mkdir" "rmdir" "opent" "write" "close" "utime" "chmod"   mutating fs steps (numbered by k,
                                                                                        the shim's numbering)
           "isdir" "isfile" "load" "listdir"                                            decision reads (not numbered)
           "br" "mark" "brf" "rmtreeq" "ret"                                             control (no fs call)
       a,b paths;  v version token written / expected / result;  i of n chunks
       ok / ee / en / er   next label on success / natural EEXIST|ENOTEMPTY / natural ENOENT / any other error
       q   quiet: a failure of this step does not replace the pending exception (clean-up inside a handler)

   Paths:  <<"P">> <<"Q">> workspaces; <<"P","A">> a job directory; files "sp" "sp~" "doc" "data" "nested" "f";
           "tsp"/"tdoc"/"tpdoc" = the uuid temp name ._<uuid>_<name>; <<"root","pdoc">> project document;
           <<"sig","cache">>, <<"sig","cache~">> the state point cache and its temp file.
   Version tokens are opaque ("spA" is the state point whose id is "A").

   DEVIATION D1 (C11): Project.clone does not clean up after shutil.copytree reported errors: the destination
   keeps whatever was copied, including a valid state point file, so it validates although data is missing.
   FixedCloneCleanup = TRUE models the proposed fix (destination removed before the error is re-raised). *)
EXTENDS PosixFs

CONSTANTS Scenarios,          \* set of scenario names explored in this run
          MaxFaults,          \* injected faults (errno failures and the crash) per behaviour
          Errnos,             \* injected errnos: {"EIO","ENOSPC","EACCES","EXDEV","EROFS"} (the property's quantifier) and any
                              \* further ones (EBUSY, EPERM, EMFILE, ENOTEMPTY, EINTR, ENAMETOOLONG, EDQUOT): an errno is a failure
                              \* followed by the code's handler path; the handlers only distinguish the sets in BrSets (and ENOENT,
                              \* which is never injected) - NO errno makes a handler retry a step or re-enter a block
          DocProto,           \* "atomic" | "inplace"  document / project document / cache write protocol
          SpProto,            \* "atomic" | "inplace"  state point file (in place only after disable_multithreading())
          CacheChunks,        \* number of write chunks of the gzip stream
          WithReader,         \* BOOLEAN: a concurrent reader process on the write target
          ReaderProto,        \* "plain" | "recover": how a signac session reads the target (see the reader actions)
          FixedCloneCleanup   \* BOOLEAN: deviation D1 removed

VARIABLES scn, pc, exc, flag, k, nf, script, res, crashed, last, rpc, rval, rAt
vars == <<names, data, fds, nextIno, scn, pc, exc, flag, k, nf, script, res, crashed, last, rpc, rval, rAt>>

---------------------------------------------------------------------------
(* instructions *)
NoP == <<>>
I(op, a, b, v, i, n, ok, ee, en, er, q) ==
  [op |-> op, a |-> a, b |-> b, v |-> v, i |-> i, n |-> n, ok |-> ok, ee |-> ee, en |-> en, er |-> er, q |-> q]
Ren(a, b, ok, ee, en, er) == I("rename", a, b, "", 0, 0, ok, ee, en, er, FALSE)
Unl(a, ok, en, er)   == I("unlink", a, NoP, "", 0, 0, ok, er, en, er, FALSE)
UnlQ(a, nx)          == I("unlink", a, NoP, "", 0, 0, nx, nx, nx, nx, TRUE)
Mkd(a, ok, ee, er)   == I("mkdir", a, NoP, "", 0, 0, ok, ee, er, er, FALSE)
Rmd(a, ok, er)       == I("rmdir", a, NoP, "", 0, 0, ok, er, er, er, FALSE)
Opn(a, ok, er)       == I("opent", a, NoP, "", 0, 0, ok, er, er, er, FALSE)
Wr(a, v, i, n, ok, er) == I("write", a, NoP, v, i, n, ok, er, er, er, FALSE)
Cls(a, ok, er)       == I("close", a, NoP, "", 0, 0, ok, er, er, er, FALSE)
ClsQ(a, nx)          == I("close", a, NoP, "", 0, 0, nx, nx, nx, nx, FALSE)   \* close in __exit__ while unwinding: same path,
                                                                            \* but a failing close REPLACES the pending exception
Met(op, a, ok, er)   == I(op, a, NoP, "", 0, 0, ok, er, er, er, FALSE)
IsD(a, yes, no)      == I("isdir", a, NoP, "", 0, 0, yes, no, no, no, FALSE)
IsF(a, yes, no)      == I("isfile", a, NoP, "", 0, 0, yes, no, no, no, FALSE)
Lod(a, v, ok, en, er) == I("load", a, NoP, v, 0, 0, ok, er, en, er, FALSE)
Lst(a, ok, en)       == I("listdir", a, NoP, "", 0, 0, ok, en, en, en, FALSE)
Br(set, yes, no)     == I("br", NoP, NoP, set, 0, 0, yes, no, no, no, FALSE)
Mark(nx)             == I("mark", NoP, NoP, "", 0, 0, nx, nx, nx, nx, FALSE)
BrF(yes, no)         == I("brf", NoP, NoP, "", 0, 0, yes, no, no, no, FALSE)
RmT(a, nx)           == I("rmtreeq", a, NoP, "", 0, 0, nx, nx, nx, nx, TRUE)
Ret(v)               == I("ret", NoP, NoP, v, 0, 0, "done", "done", "done", "done", FALSE)

FsOps   == {"rename", "unlink", "mkdir", "rmdir", "opent", "write", "close", "utime", "chmod"}
ReadOps == {"isdir", "isfile", "load", "listdir"}
BrSets  == [exists |-> {"EEXIST", "ENOTEMPTY", "EACCES"}, swallow |-> {"EEXIST", "EACCES"}, xdev |-> {"EXDEV"}]

Rets == ("ok" :> Ret("ok")) @@ ("raise" :> Ret("raise")) @@ ("corrupt" :> Ret("JobsCorruptedError"))
        @@ ("dee" :> Ret("DestinationExistsError")) @@ ("rt" :> Ret("RuntimeError")) @@ ("err" :> Ret("Error"))

---------------------------------------------------------------------------
(* write protocols *)
(* JSONCollection._save_to_resource: temp file next to the target + os.replace (atomic), or - the NAMED
   ALTERNATIVE on which OldOrNew must fail - open(target, "wb") in place.
       with open(tmp, "wb") as f: f.write(blob)        a failing write still closes and leaves the temp
       os.replace(tmp, target)                                                                            *)
DocWrite(pre, proto, tmp, tgt, v, ok, er) ==
  IF proto = "atomic"
  THEN (pre \o "o" :> Opn(tmp, pre \o "w", er)) @@ (pre \o "w" :> Wr(tmp, v, 1, 1, pre \o "c", pre \o "x"))
       @@ (pre \o "c" :> Cls(tmp, pre \o "r", er)) @@ (pre \o "x" :> ClsQ(tmp, er))
       @@ (pre \o "r" :> Ren(tmp, tgt, ok, er, er, er))
  ELSE (pre \o "o" :> Opn(tgt, pre \o "w", er)) @@ (pre \o "w" :> Wr(tgt, v, 1, 1, pre \o "c", pre \o "x"))
       @@ (pre \o "c" :> Cls(tgt, ok, er)) @@ (pre \o "x" :> ClsQ(tgt, er))

(* Project.update_cache: gzip.open(cache~, "wb"), CacheChunks writes (header pieces, deflate blocks, crc, size),
   close, os.replace(cache~, cache); on OSError inside the with-block: os.remove(cache~) (errors ignored), re-raise *)
CL(i) == "cw" \o ToString(i)
CacheWrite(proto, tmp, tgt, v, ok, er) ==
  LET K == CacheChunks
      f == IF proto = "atomic" THEN tmp ELSE tgt
  IN (("co") :> Opn(f, CL(1), "cu"))
     @@ [lbl \in {CL(i) : i \in 1..K} |-> LET i == CHOOSE j \in 1..K : CL(j) = lbl IN
            Wr(f, v, i, K, IF i = K THEN "cc" ELSE CL(i + 1), "cx")]
     @@ ("cc" :> Cls(f, IF proto = "atomic" THEN "cr" ELSE ok, "cu")) @@ ("cx" :> ClsQ(f, "cu"))
     @@ ("cu" :> UnlQ(f, er))
     @@ ("cr" :> Ren(tmp, tgt, ok, er, er, er))

---------------------------------------------------------------------------
(* Job.init(force): try to load; on any exception _mkdir_p, save(force) = write only if absent (or forced),
   on a failing write other than EEXIST/EACCES remove the file (errors ignored) and re-raise; then load and validate *)
InitProg(pre, J, v, force, ok) ==
  (pre \o "ld" :> Lod(J \o <<"sp">>, v, ok, pre \o "isd", pre \o "isd"))
  @@ (pre \o "isd" :> IsD(J, IF force THEN pre \o "so" ELSE pre \o "isf", pre \o "mk"))
  @@ (pre \o "mk" :> Mkd(J, IF force THEN pre \o "so" ELSE pre \o "isf", IF force THEN pre \o "so" ELSE pre \o "isf", "raise"))
  @@ (pre \o "isf" :> IsF(J \o <<"sp">>, pre \o "l2", pre \o "so"))
  @@ DocWrite(pre \o "s", SpProto, J \o <<"tsp">>, J \o <<"sp">>, v, pre \o "l2", pre \o "br")
  @@ (pre \o "br" :> Br("swallow", pre \o "l2", pre \o "rm"))
  @@ (pre \o "rm" :> UnlQ(J \o <<"sp">>, "raise"))
  @@ (pre \o "l2" :> Lod(J \o <<"sp">>, v, ok, "corrupt", "corrupt"))

(* _StatePointDict._save: the re-key protocol *)
RekeyProg(A, B, vB) ==
  ("r1" :> Ren(A \o <<"sp">>, A \o <<"sp~">>, "r2", "raise", "ok", "raise"))
  @@ ("r2" :> Ren(A, B, "r3", "r2r", "r2r", "r2r"))
  @@ ("r2r" :> Ren(A \o <<"sp~">>, A \o <<"sp">>, "r2b", "raise", "r2b", "raise"))        \* rollback
  @@ ("r2b" :> Br("exists", "dee", "raise"))
  @@ ("r3" :> Unl(B \o <<"sp~">>, "bld", "bld", "raise"))
  @@ InitProg("b", B, vB, FALSE, "ok")

(* Job.move: _mkdir_p(dst workspace); os.replace(job dir, dst dir); errno mapping *)
MoveProg(src, dstws, dst) ==
  ("m0" :> IsD(dstws, "m2", "m1")) @@ ("m1" :> Mkd(dstws, "m2", "m2", "raise"))
  @@ ("m2" :> Ren(src, dst, "ok", "dee", "rt", "m3"))
  @@ ("m3" :> Br("exists", "dee", "m4")) @@ ("m4" :> Br("xdev", "rt", "raise"))

(* the tree of the affected job in listing order *)
Entries(order) == IF order = "fwd" THEN <<"data", "nested", "doc", "sp">> ELSE <<"sp", "doc", "nested", "data">>
TokOf(name) == CASE name = "data" -> "data" [] name = "doc" -> "docA" [] name = "sp" -> "spA" [] name = "f" -> "f"

(* Project.clone = shutil.copytree(copy2): makedirs(dst); per entry copy2 = open/write/close + copystat (utime, chmod);
   an OSError on one entry is COLLECTED (mark) and the walk continues; Error raised at the end.  D1: no clean-up. *)
CN(j) == "c" \o ToString(j)
CloneFile(pre, dst, v, nx) ==
  (pre \o "o" :> Opn(dst, pre \o "w", pre \o "m")) @@ (pre \o "w" :> Wr(dst, v, 1, 1, pre \o "c", pre \o "x"))
  @@ (pre \o "c" :> Cls(dst, pre \o "u", pre \o "m")) @@ (pre \o "x" :> ClsQ(dst, pre \o "m"))
  @@ (pre \o "u" :> Met("utime", dst, pre \o "h", pre \o "m")) @@ (pre \o "h" :> Met("chmod", dst, nx, pre \o "m"))
  @@ (pre \o "m" :> Mark(nx))
CloneDir(pre, dst, nx) ==
  (pre \o "k" :> Mkd(dst, pre \o "fo", pre \o "m", pre \o "m"))
  @@ CloneFile(pre \o "f", dst \o <<"f">>, "f", pre \o "u")
  @@ (pre \o "u" :> Met("utime", dst, pre \o "h", pre \o "m")) @@ (pre \o "h" :> Met("chmod", dst, nx, pre \o "m"))
  @@ (pre \o "m" :> Mark(nx))
CloneFirst(E, j) == IF j > Len(E) THEN "cu" ELSE IF E[j] = "nested" THEN CN(j) \o "k" ELSE CN(j) \o "o"
CloneEntry(E, j, dst) == IF E[j] = "nested" THEN CloneDir(CN(j), dst \o <<"nested">>, CloneFirst(E, j + 1))
                         ELSE CloneFile(CN(j), dst \o <<E[j]>>, TokOf(E[j]), CloneFirst(E, j + 1))
CloneProg(order, dstws, dst) ==
  LET E == Entries(order) IN
  ("c0" :> IsD(dstws, "cm", "cq")) @@ ("cq" :> Mkd(dstws, "cm", "cm", "raise"))
  @@ ("cm" :> Mkd(dst, CloneFirst(E, 1), "dee", "raise"))
  @@ CloneEntry(E, 1, dst) @@ CloneEntry(E, 2, dst) @@ CloneEntry(E, 3, dst) @@ CloneEntry(E, 4, dst)
  @@ ("cu" :> Met("utime", dst, "ch", "cum")) @@ ("ch" :> Met("chmod", dst, "cf", "cum")) @@ ("cum" :> Mark("cf"))
  @@ ("cf" :> BrF(IF FixedCloneCleanup THEN "cfix" ELSE "err", "ok"))
  @@ ("cfix" :> RmT(dst, "err"))

(* Job.remove = shutil.rmtree: unlink / rmdir in listing order, the first error aborts and is raised *)
XN(j) == "x" \o ToString(j)
RmFirst(E, j) == IF j > Len(E) THEN "xe" ELSE IF E[j] = "nested" THEN XN(j) \o "f" ELSE XN(j)
RmEntry(E, j, A, er) ==
  IF E[j] = "nested"
  THEN (XN(j) \o "f" :> Unl(A \o <<"nested", "f">>, XN(j) \o "d", er, er)) @@ (XN(j) \o "d" :> Rmd(A \o <<"nested">>, RmFirst(E, j + 1), er))
  ELSE (XN(j) :> Unl(A \o <<E[j]>>, RmFirst(E, j + 1), er, er))
RemoveProg(order, A) ==
  LET E == Entries(order) IN
  ("x0" :> Lst(A, RmFirst(E, 1), "ok"))
  @@ RmEntry(E, 1, A, "raise") @@ RmEntry(E, 2, A, "raise") @@ RmEntry(E, 3, A, "raise") @@ RmEntry(E, 4, A, "raise")
  @@ ("xe" :> Rmd(A, "ok", "raise"))

(* Job.clear: every entry but the state point and the document is removed, then document.clear() is written;
   Job.reset = clear + init *)
ClearProg(A, after) ==
  LET E == <<"data", "nested">> IN
  ("x0" :> Lst(A, RmFirst(E, 1), "ok"))
  @@ RmEntry(E, 1, A, "raise") @@ RmEntry(E, 2, A, "raise")
  @@ ("xe" :> IsD(A, "kdo", "kdo"))
  @@ DocWrite("kd", DocProto, A \o <<"tdoc">>, A \o <<"doc">>, "docEmpty", after, "raise")

---------------------------------------------------------------------------
(* initial trees *)
E(p, v) == [p |-> p, v |-> v]
Job(d, sp, doc, payload) ==
  <<E(d, "DIR"), E(d \o <<"sp">>, sp), E(d \o <<"doc">>, doc)>>
  \o (IF payload THEN <<E(d \o <<"data">>, "data"), E(d \o <<"nested">>, "DIR"), E(d \o <<"nested", "f">>, "f")>> ELSE <<>>)
Base  == <<E(<<"P">>, "DIR"), E(<<"root">>, "DIR"), E(<<"sig">>, "DIR")>> \o Job(<<"P", "O">>, "spO", "docO", FALSE)
JA    == Job(<<"P", "A">>, "spA", "docA", TRUE)
PA == <<"P", "A">>
PB == <<"P", "B">>
QA == <<"Q", "A">>
QWs   == <<E(<<"Q">>, "DIR")>> \o Job(<<"Q", "O2">>, "spO2", "docO2", FALSE)

(* scenario table. kind "write" (C10) / "life" (C11). *)
W(op, ents, prog, start, targets, tmps, rt) ==
  [kind |-> "write", op |-> op, ents |-> ents, disk |-> DiskOf(ents), prog |-> prog @@ Rets, start |-> start, targets |-> targets, tmps |-> tmps,
   rt |-> rt, aff |-> NoP, payload |-> FALSE, removal |-> FALSE, clone |-> FALSE, succ |-> "write", frozen |-> {}, dest |-> NoP]
L(op, ents, prog, start, aff, payload, removal, clone, succ, frozen, dest) ==
  [kind |-> "life", op |-> op, ents |-> ents, disk |-> DiskOf(ents), prog |-> prog @@ Rets, start |-> start, targets |-> {}, tmps |-> {},
   rt |-> NoP, aff |-> aff, payload |-> payload, removal |-> removal, clone |-> clone, succ |-> succ, frozen |-> frozen, dest |-> dest]
T(p, old, new) == [p |-> p, old |-> old, new |-> new]
DocA == PA \o <<"doc">>
DocO == <<"P", "O", "doc">>
PDoc == <<"root", "pdoc">>
Cache == <<"sig", "cache">>
FrozenP == {<<"P", "O">>, <<"root">>, <<"sig">>}

Table ==
  [ w_doc_new |-> W("docwrite", Base \o <<E(PA, "DIR"), E(PA \o <<"sp">>, "spA")>>,
                    DocWrite("d", DocProto, PA \o <<"tdoc">>, DocA, "docNew", "ok", "raise"), "do",
                    {T(DocA, "ABSENT", "docNew")}, {PA \o <<"tdoc">>}, DocA),
    w_doc     |-> W("docwrite", Base \o JA, DocWrite("d", DocProto, PA \o <<"tdoc">>, DocA, "docNew", "ok", "raise"), "do",
                    {T(DocA, "docA", "docNew")}, {PA \o <<"tdoc">>}, DocA),
    w_pdoc    |-> W("docwrite", Base \o <<E(PDoc, "pdocOld")>>, DocWrite("d", DocProto, <<"root", "tpdoc">>, PDoc, "pdocNew", "ok", "raise"), "do",
                    {T(PDoc, "pdocOld", "pdocNew")}, {<<"root", "tpdoc">>}, PDoc),
    (* buffered flush at the exit of signac.buffered(): the document protocol once per modified file *)
    w_flush   |-> W("flush", Base \o JA \o <<E(PDoc, "pdocOld")>>,
                    DocWrite("f1", DocProto, <<"root", "tpdoc">>, PDoc, "pdocNew", "f2o", "raise")
                    @@ DocWrite("f2", DocProto, <<"P", "O", "tdoc">>, DocO, "docONew", "f3o", "raise")
                    @@ DocWrite("f3", DocProto, PA \o <<"tdoc">>, DocA, "docNew", "ok", "raise"), "f1o",
                    {T(PDoc, "pdocOld", "pdocNew"), T(DocO, "docO", "docONew"), T(DocA, "docA", "docNew")},
                    {<<"root", "tpdoc">>, <<"P", "O", "tdoc">>, PA \o <<"tdoc">>}, DocA),
    w_cache_new |-> W("cache", Base \o JA, CacheWrite(DocProto, <<"sig", "cache~">>, Cache, "cacheNew", "ok", "raise"), "co",
                    {T(Cache, "ABSENT", "cacheNew")}, {<<"sig", "cache~">>}, Cache),
    w_cache   |-> W("cache", Base \o JA \o <<E(Cache, "cacheOld")>>, CacheWrite(DocProto, <<"sig", "cache~">>, Cache, "cacheNew", "ok", "raise"), "co",
                    {T(Cache, "cacheOld", "cacheNew")}, {<<"sig", "cache~">>}, Cache),

    init_fresh    |-> L("init", Base, InitProg("i", PA, "spA", FALSE, "ok"), "ild", PA, FALSE, FALSE, FALSE, "init", FrozenP, NoP),
    init_existing |-> L("init", Base \o JA, InitProg("i", PA, "spA", FALSE, "ok"), "ild", PA, TRUE, FALSE, FALSE, "init", FrozenP, NoP),
    (* a directory left without state point file (e.g. by an earlier crash) is completed *)
    init_nosp     |-> L("init", Base \o <<E(PA, "DIR"), E(PA \o <<"data">>, "data")>>, InitProg("i", PA, "spA", FALSE, "ok"), "ild",
                        PA, FALSE, FALSE, FALSE, "init", FrozenP, NoP),
    (* a directory whose state point file belongs to another id is never accepted and never overwritten ... *)
    init_badsp    |-> L("init", Base \o <<E(PA, "DIR"), E(PA \o <<"sp">>, "spO")>>, InitProg("i", PA, "spA", FALSE, "ok"), "ild",
                        PA, FALSE, FALSE, FALSE, "none", FrozenP, NoP),
    (* ... unless forced *)
    init_force    |-> L("init", Base \o <<E(PA, "DIR"), E(PA \o <<"sp">>, "spO")>>, InitProg("i", PA, "spA", TRUE, "ok"), "ild",
                        PA, FALSE, FALSE, FALSE, "init", FrozenP, NoP),

    rekey_fresh   |-> L("rekey", Base \o JA, RekeyProg(PA, PB, "spB"), "r1", PA, TRUE, FALSE, FALSE, "rekey", FrozenP, PB),
    rekey_emptydst |-> L("rekey", Base \o JA \o <<E(PB, "DIR")>>, RekeyProg(PA, PB, "spB"), "r1", PA, TRUE, FALSE, FALSE, "rekey", FrozenP, PB),
    rekey_collide |-> L("rekey", Base \o JA \o Job(PB, "spB", "docB", FALSE), RekeyProg(PA, PB, "spB"), "r1", PA, TRUE, FALSE, FALSE, "none",
                        FrozenP \cup {PB}, PB),

    move_fresh    |-> L("move", Base \o JA, MoveProg(PA, <<"Q">>, QA), "m0", PA, TRUE, FALSE, FALSE, "move", FrozenP, QA),
    move_existing |-> L("move", Base \o JA \o QWs, MoveProg(PA, <<"Q">>, QA), "m0", PA, TRUE, FALSE, FALSE, "move", FrozenP \cup {<<"Q", "O2">>}, QA),
    move_collide  |-> L("move", Base \o JA \o QWs \o Job(QA, "spA", "docQ", FALSE), MoveProg(PA, <<"Q">>, QA), "m0", PA, TRUE, FALSE, FALSE, "none",
                        FrozenP \cup {<<"Q", "O2">>, QA}, QA),

    clone_fresh   |-> L("clone", Base \o JA, CloneProg("fwd", <<"Q">>, QA), "c0", PA, TRUE, FALSE, TRUE, "clone", FrozenP \cup {PA}, QA),
    clone_existing |-> L("clone", Base \o JA \o QWs, CloneProg("fwd", <<"Q">>, QA), "c0", PA, TRUE, FALSE, TRUE, "clone",
                        FrozenP \cup {PA, <<"Q", "O2">>}, QA),
    clone_existing_rev |-> L("clone", Base \o JA \o QWs, CloneProg("rev", <<"Q">>, QA), "c0", PA, TRUE, FALSE, TRUE, "clone",
                        FrozenP \cup {PA, <<"Q", "O2">>}, QA),
    clone_collide |-> L("clone", Base \o JA \o QWs \o Job(QA, "spA", "docQ", FALSE), CloneProg("fwd", <<"Q">>, QA), "c0", PA, TRUE, FALSE, TRUE, "none",
                        FrozenP \cup {PA, <<"Q", "O2">>, QA}, QA),

    remove_fwd    |-> L("remove", Base \o JA, RemoveProg("fwd", PA), "x0", PA, TRUE, TRUE, FALSE, "remove", FrozenP, NoP),
    remove_rev    |-> L("remove", Base \o JA, RemoveProg("rev", PA), "x0", PA, TRUE, TRUE, FALSE, "remove", FrozenP, NoP),
    clear         |-> L("clear", Base \o JA, ClearProg(PA, "ok"), "x0", PA, TRUE, TRUE, FALSE, "clear", FrozenP, NoP),
    reset         |-> L("reset", Base \o JA, ClearProg(PA, "ild") @@ InitProg("i", PA, "spA", FALSE, "ok"), "x0", PA, TRUE, TRUE, FALSE, "clear", FrozenP, NoP)
  ]
S == Table[scn]
Prog == S.prog
AllScenarios == DOMAIN Table

---------------------------------------------------------------------------
(* the interpreter *)
Running == ~crashed /\ pc \in DOMAIN Prog
Ins == Prog[pc]

Outcome(ins) ==
  CASE ins.op = "rename" -> RenameOutcome(ins.a, ins.b)
    [] ins.op = "unlink" -> UnlinkOutcome(ins.a)
    [] ins.op = "mkdir"  -> MkdirOutcome(ins.a)
    [] ins.op = "rmdir"  -> RmdirOutcome(ins.a)
    [] ins.op = "opent"  -> OpenTruncOutcome(ins.a)
    [] ins.op \in {"utime", "chmod"} -> IF Exists(ins.a) THEN "ok" ELSE "ENOENT"
    [] ins.op = "isdir"  -> IF IsDir(ins.a) THEN "ok" ELSE "ENOENT"
    [] ins.op = "isfile" -> IF IsFile(ins.a) THEN "ok" ELSE "ENOENT"
    [] ins.op = "listdir" -> IF IsDir(ins.a) THEN "ok" ELSE "ENOENT"
    [] ins.op = "load"   -> IF ~IsFile(ins.a) THEN "ENOENT" ELSE IF ParseAt(ins.a) = ins.v THEN "ok" ELSE "EINVAL"
    [] OTHER -> "ok"
NextLabel(ins, out) == IF out = "ok" THEN ins.ok ELSE IF out = "ENOENT" THEN ins.en
                       ELSE IF out \in {"EEXIST", "ENOTEMPTY"} THEN ins.ee ELSE ins.er
Effect(ins, out) ==
  IF out # "ok" THEN UNCHANGED fsvars
  ELSE CASE ins.op = "rename" -> Rename(ins.a, ins.b)
         [] ins.op = "unlink" -> Unlink(ins.a)
         [] ins.op = "mkdir"  -> Mkdir(ins.a)
         [] ins.op = "rmdir"  -> Rmdir(ins.a)
         [] ins.op = "opent"  -> OpenTrunc("w", ins.a)
         [] ins.op = "write"  -> Write("w", ins.v, ins.i, ins.n)
         [] ins.op = "close"  -> Close("w")
         [] OTHER -> UNCHANGED fsvars
Obs(kk, ins, out) == [k |-> kk, op |-> ins.op, a |-> ins.a, b |-> ins.b, out |-> out]

(* a mutating file-system step that is allowed to run *)
FsStep(opname) ==
  /\ Running /\ Ins.op = opname
  /\ LET ins == Ins  out == Outcome(ins) IN
       /\ Effect(ins, out)
       /\ pc' = NextLabel(ins, out)
       /\ exc' = IF out = "ok" \/ ins.q THEN exc ELSE out
       /\ k' = k + 1
       /\ last' = Obs(k + 1, ins, out)
  /\ UNCHANGED <<scn, flag, nf, script, res, crashed, rpc, rval, rAt>>
DoRename == FsStep("rename")
DoUnlink == FsStep("unlink")
DoMkdir  == FsStep("mkdir")
DoRmdir  == FsStep("rmdir")
DoOpenTrunc == FsStep("opent")
DoWrite  == FsStep("write")
DoClose  == FsStep("close")
DoMeta   == FsStep("utime") \/ FsStep("chmod")

(* decision reads: stat / open+read+validate / listdir - never numbered, never failed by injection in the model *)
DoRead ==
  /\ Running /\ Ins.op \in ReadOps
  /\ LET ins == Ins  out == Outcome(ins) IN
       /\ pc' = NextLabel(ins, out)
       /\ last' = Obs(0, ins, out)
  /\ UNCHANGED <<names, data, fds, nextIno, scn, exc, flag, k, nf, script, res, crashed, rpc, rval, rAt>>

DoControl ==
  /\ Running /\ Ins.op \in {"br", "mark", "brf", "rmtreeq"}
  /\ LET ins == Ins IN
       /\ pc' = CASE ins.op = "br"  -> IF exc \in BrSets[ins.v] THEN ins.ok ELSE ins.er
                  [] ins.op = "brf" -> IF flag THEN ins.ok ELSE ins.er
                  [] OTHER -> ins.ok
       /\ flag' = IF ins.op = "mark" THEN TRUE ELSE flag
       /\ IF ins.op = "rmtreeq" THEN RemoveTree(ins.a) ELSE UNCHANGED fsvars
       /\ last' = Obs(0, ins, "ok")
  /\ UNCHANGED <<scn, exc, k, nf, script, res, crashed, rpc, rval, rAt>>

DoReturn ==
  /\ Running /\ Ins.op = "ret"
  /\ res' = IF Ins.v = "raise" THEN exc ELSE Ins.v
  /\ pc' = "done"
  /\ last' = Obs(0, Ins, IF Ins.v = "raise" THEN exc ELSE Ins.v)
  /\ UNCHANGED <<names, data, fds, nextIno, scn, exc, flag, k, nf, script, crashed, rpc, rval, rAt>>

(* the step fails with errno e (nothing reaches the disk, or - for a write - possibly half of the chunk);
   execution continues at the handler label *)
F(kk, kind, e, p) == [k |-> kk, kind |-> kind, e |-> e, p |-> p]
Fail(e, p) ==
  /\ Running /\ Ins.op \in FsOps /\ nf < MaxFaults /\ e \in Errnos
  /\ p \in (IF Ins.op = "write" THEN {"none", "half"} ELSE {"none"})
  /\ LET ins == Ins IN
       /\ IF p = "half" THEN WriteTorn("w", ins.v, ins.i, ins.n, "half")
          ELSE IF ins.op = "close" THEN Close("w") ELSE UNCHANGED fsvars
       /\ pc' = ins.er
       /\ exc' = IF ins.q THEN exc ELSE e
       /\ last' = Obs(k + 1, ins, "fail:" \o e)
  /\ k' = k + 1 /\ nf' = nf + 1
  /\ script' = Append(script, F(k + 1, "fail", e, p))
  /\ UNCHANGED <<scn, flag, res, crashed, rpc, rval, rAt>>

(* kill -9 before the next mutating step: enabled in EVERY state of a running operation *)
Crash ==
  /\ Running
  /\ CrashProcs({"w"})
  /\ crashed' = TRUE /\ pc' = "dead" /\ res' = "crash"
  /\ script' = Append(script, F(k + 1, "crash", "", "none"))
  /\ last' = [k |-> k + 1, op |-> "crash", a |-> NoP, b |-> NoP, out |-> "crash"]
  /\ UNCHANGED <<scn, exc, flag, k, nf, rpc, rval, rAt>>
(* kill -9 inside a write: any prefix class of the chunk may be on disk *)
CrashTorn(p) ==
  /\ Running /\ Ins.op = "write" /\ p \in PrefixClasses
  /\ WriteTorn("w", Ins.v, Ins.i, Ins.n, p)
  /\ crashed' = TRUE /\ pc' = "dead" /\ res' = "crash"
  /\ script' = Append(script, F(k + 1, "torn", "", p))
  /\ last' = [k |-> k + 1, op |-> "crash", a |-> Ins.a, b |-> NoP, out |-> "torn:" \o p]
  /\ UNCHANGED <<scn, exc, flag, k, nf, rpc, rval, rAt>>

(* a reader in another process = a signac SESSION that reads the target through the library
   (Project._read_cache: gzip.open(cache, "rb"); JSONCollection._load_from_resource: open(doc, "rb")):
       "plain"    OpenRead(target) [ENOENT: "no file"], ReadAll, Parse.  The reader takes NO step on any other name and
                  NO mutating step at all - a recorded reader session with any other step is rejected by LifecycleTrace.
       "recover"  NAMED BROKEN VARIANT on which OldOrNew MUST fail: a reader that finds no target first renames the
                  writer's temporary file over it ("pick up the work of an interrupted update") - but the temp file also
                  exists, half written, while a writer is inside the protocol and after a crash inside the write. *)
RTmp == IF S.rt = <<"sig", "cache">> THEN <<"sig", "cache~">> ELSE NoP
ReaderRecover ==
  /\ WithReader /\ S.kind = "write" /\ ReaderProto = "recover" /\ rpc = "open"
  /\ IF ~Exists(S.rt) /\ RTmp # NoP /\ RenameOutcome(RTmp, S.rt) = "ok"
     THEN Rename(RTmp, S.rt) ELSE UNCHANGED fsvars
  /\ rpc' = "open2"
  /\ UNCHANGED <<scn, pc, exc, flag, k, nf, script, res, crashed, last, rval, rAt>>
ReaderOpen ==
  /\ WithReader /\ S.kind = "write" /\ rpc = (IF ReaderProto = "recover" THEN "open2" ELSE "open")
  /\ IF OpenReadOutcome(S.rt) = "ok"
     THEN OpenRead("r", S.rt) /\ rpc' = "read" /\ rval' = rval
     ELSE UNCHANGED fsvars /\ rpc' = "done" /\ rval' = "ABSENT"
  /\ rAt' = <<k, 0>>
  /\ UNCHANGED <<scn, pc, exc, flag, k, nf, script, res, crashed, last>>
ReaderRead ==
  /\ WithReader /\ rpc = "read"
  /\ rval' = Parse(ReadAll("r")) /\ rpc' = "done" /\ rAt' = <<rAt[1], k>>
  /\ Close("r")
  /\ UNCHANGED <<scn, pc, exc, flag, k, nf, script, res, crashed, last>>

Init ==
  /\ scn \in Scenarios
  /\ names = NamesOf(Table[scn].ents) /\ data = DataOf(Table[scn].ents)
  /\ nextIno = Len(Table[scn].ents) + 1 /\ fds = [p \in {"w", "r"} |-> 0]
  /\ pc = Table[scn].start /\ exc = "" /\ flag = FALSE /\ k = 0 /\ nf = 0 /\ script = <<>> /\ res = "run" /\ crashed = FALSE
  /\ last = [k |-> 0, op |-> "init", a |-> NoP, b |-> NoP, out |-> "ok"]
  /\ rpc = (IF WithReader /\ Table[scn].kind = "write" THEN "open" ELSE "off") /\ rval = "-" /\ rAt = <<0, 0>>

Next == \/ DoRename \/ DoUnlink \/ DoMkdir \/ DoRmdir \/ DoOpenTrunc \/ DoWrite \/ DoClose \/ DoMeta
        \/ DoRead \/ DoControl \/ DoReturn
        \/ \E e \in Errnos, p \in {"none", "half"} : Fail(e, p)
        \/ Crash \/ \E p \in PrefixClasses : CrashTorn(p)
        \/ ReaderRecover \/ ReaderOpen \/ ReaderRead
Spec == Init /\ [][Next]_vars

---------------------------------------------------------------------------
(* C10 *)
InitPaths == DOMAIN S.disk
TargetPaths == {t.p : t \in S.targets}
RT == CHOOSE t \in S.targets : t.p = S.rt
(* at every instant - i.e. in every reachable state, which includes the state after a crash at any point and
   every position of the reader - the target parses to the old or the new content *)
OldOrNew ==
  S.kind = "write" =>
    /\ \A t \in S.targets : ParseAt(t.p) \in {t.old, t.new}
    /\ rpc = "done" => rval \in {RT.old, RT.new}
NeverTornOrEmpty ==
  S.kind = "write" =>
    /\ \A t \in S.targets : ParseAt(t.p) \notin {"TORN", "EMPTY"}
    /\ rval \notin {"TORN", "EMPTY"}
(* a write that meets no injected failure completes, whatever a concurrent reader does *)
WriterCompletes == (S.kind = "write" /\ pc = "done" /\ nf = 0) => res = "ok"
(* a crash leaves at most ONE stray file, and it is the temp name next to a target; a completed write leaves none *)
Extra == (DOMAIN names \ InitPaths) \ TargetPaths
LitterOnlyTmp ==
  S.kind = "write" =>
    /\ Extra \subseteq S.tmps /\ Cardinality(Extra) <= 1
    /\ \A x \in Extra : \E t \in S.targets : Parent(t.p) = Parent(x)
    /\ (pc = "done" /\ res = "ok") => Extra = {}

---------------------------------------------------------------------------
(* C11 *)
Ids == {"A", "B", "O", "O2"}
SpTok == [A |-> "spA", B |-> "spB", O |-> "spO", O2 |-> "spO2"]
WsDirs == {<<"P">>, <<"Q">>}
WsEntries == {p \in DOMAIN names : Len(p) = 2 /\ Parent(p) \in WsDirs}
Valid(d) == IsDir(d) /\ d[2] \in Ids /\ ParseAt(d \o <<"sp">>) = SpTok[d[2]]
(* Project.check(): every directory the listing yields whose state point file is absent, unparseable or hashes
   to another id *)
Reported(d) == IsDir(d) /\ d[2] \in Ids /\ ~Valid(d)
InitDisk == S.disk
SameAsInit(p) == (p \in DOMAIN names) = (p \in DOMAIN InitDisk) /\ (p \in DOMAIN names => ParseAt(p) = (IF InitDisk[p] = "DIR" THEN "DIR" ELSE InitDisk[p]))
UnderAny(D, p) == \E d \in D : IsPrefix(d, p)

OthersUntouched ==
  S.kind = "life" => \A p \in DOMAIN names \cup DOMAIN InitDisk : UnderAny(S.frozen, p) => SameAsInit(p)

PayloadRel == {<<"data">>, <<"nested", "f">>, <<"doc">>}
PayloadTok(r) == IF r = <<"data">> THEN "data" ELSE IF r = <<"doc">> THEN "docA" ELSE "f"
HasAll(d) == \A r \in PayloadRel : ParseAt(d \o r) = PayloadTok(r)
HasAny(d) == \E r \in {<<"data">>, <<"nested", "f">>} : Exists(d \o r)
(* the affected job's data files all exist under exactly one id directory (clone: the source keeps them, the only
   other place is the clone's destination); nothing is parked under a name the listing skips *)
PayloadUnderOneId ==
  (S.kind = "life" /\ S.payload /\ ~S.removal) =>
    LET full == {d \in WsEntries : d[2] \in Ids /\ HasAll(d)}
        some == {d \in WsEntries : HasAny(d)}
    IN IF S.clone THEN S.aff \in full /\ some \subseteq {S.aff, S.dest}
       ELSE Cardinality(full) = 1 /\ some = full
ValidOrReported ==
  S.kind = "life" => \A d \in WsEntries : IsDir(d) /\ d[2] \in Ids /\ (Valid(d) \/ Reported(d))
(* no directory validates with a state point that job never had: the only state points ever written are the job's
   own before / after the operation; other directories keep theirs *)
NoForgery ==
  S.kind = "life" => \A d \in WsEntries : Valid(d) =>
     \/ d \in {S.aff, S.dest}
     \/ (d \in DOMAIN InitDisk /\ (d \o <<"sp">>) \in DOMAIN InitDisk /\ InitDisk[d \o <<"sp">>] = SpTok[d[2]])

(* job-level pre-state: every workspace entry and everything below it as initially (an empty destination workspace
   may have been created) *)
JobPaths(dom) == {p \in dom : Len(p) >= 2 /\ <<p[1]>> \in WsDirs}
PreState == /\ JobPaths(DOMAIN names) = JobPaths(DOMAIN InitDisk)
            /\ \A p \in JobPaths(DOMAIN names) : SameAsInit(p)
Detectable == \E d \in WsEntries : Reported(d)
Success ==
  CASE S.succ = "init"   -> Valid(S.aff) /\ (S.payload => HasAll(S.aff))
    [] S.succ = "rekey"  -> ~Exists(S.aff) /\ Valid(S.dest) /\ HasAll(S.dest) /\ Children(S.dest) \subseteq {S.dest \o <<x>> : x \in {"sp", "doc", "data", "nested"}}
    [] S.succ = "move"   -> ~Exists(S.aff) /\ Valid(S.dest) /\ HasAll(S.dest)
    [] S.succ = "clone"  -> Valid(S.aff) /\ HasAll(S.aff) /\ Valid(S.dest) /\ HasAll(S.dest)
    [] S.succ = "remove" -> ~Exists(S.aff)
    [] S.succ = "clear"  -> Valid(S.aff) /\ Children(S.aff) = {S.aff \o <<"sp">>, S.aff \o <<"doc">>} /\ ParseAt(S.aff \o <<"doc">>) = "docEmpty"
    [] OTHER -> FALSE
(* a removal that reports an error may have removed part of the data (the statement exempts removals) *)
PartialRemoval == S.removal /\ DOMAIN names \subseteq (DOMAIN InitDisk \cup {S.aff \o <<"tdoc">>})
                  /\ \A p \in DOMAIN names \cap DOMAIN InitDisk : p # S.aff \o <<"doc">> => SameAsInit(p)
Handled == pc = "done" /\ ~crashed
ErrorNotSilentStrict ==
  (S.kind = "life" /\ Handled) =>
     /\ res = "ok" => Success
     /\ res # "ok" => (PreState \/ Detectable \/ PartialRemoval \/ Success)    \* (an error reported although everything is
                                                                             \*  complete loses and hides nothing)
(* D1: a clone that raised leaves a destination that validates with part of the data *)
D1Case == S.clone /\ res = "Error" /\ ~FixedCloneCleanup
ErrorNotSilent == ErrorNotSilentStrict \/ D1Case

(* vacuity: used by the driver as a "must be violated" probe *)
NeverDone == pc # "done"
=============================================================================

--------------------------- MODULE LifecycleTrace ---------------------------
(* code -> spec: validates file-system step traces recorded from the REAL library by harness/fsshim.py
   (record mode and every faulty re-execution: crash@k, torn@k,p, fail@k,errno) against Lifecycle.tla.

   One NDJSON record per execution (file named by the environment variable TRACE_FILE):
     [scn  |-> scenario name,
      ev   |-> << [kind |-> "step" | "fail" | "crash", k |-> mutating step number, op |-> spec op name,
                   a |-> path role, b |-> path role, out |-> "ok" | errno name | "fail:E.." | "crash" | "torn:<class>",
                   e |-> injected errno or "", p |-> prefix class persisted before the fault or "none",
                   n |-> byte count of a write (informative; contents are abstracted to version tokens)] ... >>,
      res  |-> "ok" | exception class / errno name | "crash",
      disk |-> << [p |-> path role, v |-> "DIR" | version token | "EMPTY" | "TORN"] ... >>   raw observation after the run,
      rep  |-> << job directories reported by a FRESH Project.check() >> ]
   Only mutating steps are events (the shim numbers them; reads run on pool threads in nondeterministic order);
   the specification's decision reads and control steps are taken silently between two events.
   A trace is ACCEPTED iff every event is the next mutating step of the specification in its current state, the
   operation then terminates with the recorded result, and the recorded disk and check() report are exactly the
   specification's Disk and Reported set.  Batch idiom: one initial state per trace, one TLCSet register per trace
   holding the longest matched prefix, verdicts printed by the POSTCONDITION (run with -workers 1).            *)
EXTENDS Lifecycle, Json, IOUtils, TLCExt

(* the file is read ONCE into register 1 (a plain definition would be re-read on every reference);
   register i + 1 holds the longest matched prefix of trace i *)
ASSUME TLCSet(1, ndJsonDeserialize(IOEnv.TRACE_FILE))
Traces == TLCGet(1)
ASSUME \A i \in 1..Len(Traces) : TLCSet(i + 1, 0)

VARIABLES tid, pos     \* (do NOT name a variable like a bound identifier of Lifecycle.tla, e.g. `l`: TLC then stops
                       \*  caching the constant scenario Table and validation becomes 30x slower)
tvars == <<tid, pos>>
TR == Traces[tid]
Ev == TR.ev

TrInit ==
  /\ tid \in 1..Len(Traces)
  /\ pos = 1
  /\ scn = Traces[tid].scn
  /\ names = NamesOf(Table[scn].ents) /\ data = DataOf(Table[scn].ents)
  /\ nextIno = Len(Table[scn].ents) + 1 /\ fds = [p \in {"w", "r"} |-> 0]
  /\ pc = Table[scn].start /\ exc = "" /\ flag = FALSE /\ k = 0 /\ nf = 0 /\ script = <<>> /\ res = "run" /\ crashed = FALSE
  /\ last = [k |-> 0, op |-> "init", a |-> NoP, b |-> NoP, out |-> "ok"]
  /\ rpc = (IF \E i \in 1..Len(Traces[tid].ev) : Traces[tid].ev[i].kind \in {"ropen", "rread", "rstep"} THEN "open" ELSE "off")
  /\ rval = "-" /\ rAt = <<0, 0>>

Matches(e) == /\ last'.k = e.k /\ last'.op = e.op /\ last'.a = e.a /\ last'.b = e.b /\ last'.out = e.out
Diag(what) == PrintT(<<"MISMATCH", tid, what, pos, last'>>)

Silent == (DoRead \/ DoControl \/ DoReturn) /\ UNCHANGED tvars
Consume ==
  /\ pos <= Len(Ev)
  /\ LET e == Ev[pos] IN
       \/ /\ e.kind = "step"
          /\ (DoRename \/ DoUnlink \/ DoMkdir \/ DoRmdir \/ DoOpenTrunc \/ DoWrite \/ DoClose \/ DoMeta)
          /\ (IF Matches(e) THEN TRUE ELSE Diag("step") /\ FALSE)
       \/ /\ e.kind = "fail"
          /\ Fail(e.e, e.p)
          /\ (IF Matches(e) THEN TRUE ELSE Diag("fail") /\ FALSE)
       \/ /\ e.kind = "crash"
          /\ (IF e.p = "none" THEN Crash ELSE CrashTorn(e.p))
          /\ (IF Matches(e) THEN TRUE ELSE Diag("crash") /\ FALSE)
       (* the steps of a signac session that reads the target (another process, at this position of the writer / after
          the crash): open for reading with the recorded outcome, then the read, whose result the session survives iff the
          content parses. ANY other recorded step of the reader (kind "rstep": a rename, an unlink, a write ...) matches
          no action of the specification and rejects the trace. *)
       \/ /\ e.kind = "ropen"
          /\ ReaderOpen
          /\ (IF (rpc' = "read") = (e.out = "ok") THEN TRUE ELSE PrintT(<<"MISMATCH", tid, "ropen", pos, rpc', e.out>>) /\ FALSE)
       \/ /\ e.kind = "rread"
          /\ ReaderRead
          /\ (IF (rval' \in {"TORN", "EMPTY"}) = (e.out # "ok") THEN TRUE ELSE PrintT(<<"MISMATCH", tid, "rread", pos, rval', e.out>>) /\ FALSE)
  /\ pos' = pos + 1 /\ UNCHANGED tid

RecDisk == [p \in {TR.disk[i].p : i \in 1..Len(TR.disk)} |-> TR.disk[CHOOSE i \in 1..Len(TR.disk) : TR.disk[i].p = p].v]
RecRep  == {TR.rep[i] : i \in 1..Len(TR.rep)}
SpecRep == {d \in WsEntries : Reported(d)}
FinalMatches == res = TR.res /\ Disk = RecDisk /\ (S.kind = "life" => SpecRep = RecRep)
Final ==
  /\ pos = Len(Ev) + 1 /\ pc \in {"done", "dead"}
  /\ IF FinalMatches THEN TRUE
     ELSE PrintT(<<"FINAL-MISMATCH", tid, [res |-> res, wantres |-> TR.res, spec |-> Disk, real |-> RecDisk, specrep |-> SpecRep, realrep |-> RecRep]>>) /\ FALSE
  /\ pos' = pos + 1 /\ UNCHANGED <<tid, names, data, fds, nextIno, scn, pc, exc, flag, k, nf, script, res, crashed, last, rpc, rval, rAt>>

TrNext == Silent \/ Consume \/ Final
Track == TLCSet(tid + 1, IF TLCGet(tid + 1) < pos THEN pos ELSE TLCGet(tid + 1))

(* the requirements are evaluated on every state of every validated real execution as well *)
TraceInvC10 == OldOrNew /\ NeverTornOrEmpty /\ LitterOnlyTmp
TraceInvC11 == OthersUntouched /\ PayloadUnderOneId /\ ValidOrReported /\ NoForgery

Post == \A i \in 1..Len(Traces) :
          \/ TLCGet(i + 1) = Len(Traces[i].ev) + 2
          \/ PrintT(<<"REJECTED", i, "matched", TLCGet(i + 1) - 1, "of", Len(Traces[i].ev)>>)
=============================================================================

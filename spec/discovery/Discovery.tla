----------------------------- MODULE Discovery -----------------------------
(* C19: project / job discovery and init_project idempotence.

   A directory tree is a prefix-closed set of nodes [p, k, tgt]:
     p    path below the sandbox root, a sequence of names (<<>> is the root itself)
     k    "dir"      plain directory
          "proj"     directory that has .signac/config (and therefore, as init_project leaves it, a workspace)
          "ws"       the directory named "workspace" of a project
          "job"      32-hex-named child of a workspace
          "jobproj"  a job directory that is itself an initialised project (project nested in a job)
          "link"     symbolic link; tgt = path of the (non-link, non-workspace) node it points to,
                     or NONE for a dangling link
   id-like names occur only as children of a workspace (quantifier of the property).

   The operators GetProject / OpenProject / GetJob / InitProject are written the way the code works
   (existence test, config test at the path, upward walk, last id-like component); the REQUIREMENTS
   of the property are stated declaratively (NearestOK, ExactOK, JobOK, frame conditions) and TLC
   checks on every enumerated (tree, query) that the operational answer is the unique answer that
   satisfies them.

   Calibrated rules (the property text is silent; pinned-tree behaviour, named, never flagged):
     CAL_Lexical   "enclosing" / "containing" are judged on the absolute path AS WRITTEN (normalised
                   lexically, symbolic links not resolved): a link to a directory counts as that
                   directory standing at the link's location.  Hence a symlinked job directory
                   ws/<id> -> X is the job <id> of the project that owns ws, whatever X is, and
                   Project.path / Job.project.path are lexical paths.  Where the property text itself
                   fixes the answer (SymlinkedJobDirDetermined below: the symlinked job directory named in
                   the quantifier) a disagreement is a VIOLATION; elsewhere it is only drift of this rule.
     CAL_DeviceBlind  no answer depends on WHICH FILE SYSTEM a directory lives on: any directory of the tree
                   (a workspace, a job directory, a plain sub-directory with content below) may physically be a
                   symbolic link onto another device (the usual scratch set-up); by CAL_Lexical it still counts
                   as that directory, and the upward search continues across the device boundary.  The harness
                   re-materialises sampled trees with the node sets MountSets(t) placed on the other device
                   (and, as a control, behind links on the same device) and expects the SAME answers.
     CAL_Cwd       a relative query is interpreted against os.getcwd(), i.e. against the PHYSICAL
                   path of the working directory (Phys(q) below).
     CAL_Regex     "id-like" is the regular expression [0-9a-f]{32}; the specification abstracts it as
                   membership in Ids (the name alphabet contains a 31-digit and an upper-case
                   near-miss which are NOT id-like).
   Generator + tiny behaviours: every initial state is one tree, PickQuery chooses the query path,
   InitExisting / InitCreate are the init_project steps (at most two in a row).  Expected answers are
   exported as NDJSON by the POSTCONDITION, grouped by tree (MODE = "gen"); with MODE = "file" the trees
   and the answers observed on the real code come from the harness and TLC judges them (Judge).

   Bound: named nodes have depth <= 5; the (empty) workspace directory every initialised project has may
   stand at depth 6.  Nothing above the root is a project (checked by the harness on the real sandbox). *)
EXTENDS Naturals, Sequences, FiniteSets, TLC, Json, IOUtils, SequencesExt, FiniteSetsExt

CONSTANTS DEPTH,       \* maximal depth of the spine family (<= 5)
          SIDES,       \* side branches per tree in the spine family (0 or 1)
          FULLDEPTH,   \* maximal depth of the full-branching family
          MAXLINKS,    \* links per tree in the spine family
          FULLLINKS,   \* links per tree in the full-branching family
          NSAMPLE,     \* number of pseudo-random wide/deep trees (depth 5, branching everywhere, <= 3 links)
          SEED0,       \* seed of the pseudo-random family (from the harness; deterministic)
          MODE         \* "gen": the families below;  "file": trees built by the harness's own random generator (any
                       \* names, any branching) together with the answers OBSERVED on the real code - TLC judges them

A  == "a"
B  == "b"
N31 == "0123456789abcdef0123456789abcde"     \* 31 hex digits: not id-like
NUP == "42B7B4F2921788EA14DAC5566E6F06D0"    \* upper case: not id-like
W  == "workspace"
NX == "nx"                                    \* a name that never exists
I1 == "42b7b4f2921788ea14dac5566e6f06d0"      \* md5 of {"a": 1}
I2 == "9f8a8e5ba8c70c774d410a9107e2a32b"      \* md5 of {"a": 2}
I3 == "14fb5d016557165019abaac200785048"      \* md5 of {"a": 3}: id-like, never exists
Ids == {I1, I2, I3}
NONE == <<"*none*">>

ProjKinds == {"proj", "jobproj"}
DirKinds  == {"dir", "proj", "job", "jobproj"}   \* may have plain children
Kinds     == DirKinds \cup {"ws", "link"}

Mk(p, k) == [p |-> p, k |-> k, tgt |-> NONE]
Shift(nm, s) == {[n EXCEPT !.p = <<nm>> \o n.p] : n \in s}

---------------------------------------------------------------------------
(* tree generators *)

\* (1) full branching over child names {a} / {workspace} / {I1, I2}
RECURSIVE Full(_, _)
Full(pk, d) ==
  LET Child(nm, k) == {{Mk(<<nm>>, k)} \cup Shift(nm, s) : s \in Full(k, d - 1)}
      Opt(nm, ks)  == {{}} \cup UNION {Child(nm, k) : k \in ks}
  IN CASE pk = "link" -> {{}}
       [] pk = "ws" -> IF d = 0 THEN {{}}
                       ELSE {x \cup y : x \in Opt(I1, {"job", "jobproj", "link"}), y \in Opt(I2, {"job", "jobproj"})}
       [] pk \in ProjKinds -> IF d = 0 THEN {{Mk(<<W>>, "ws")}}
                              ELSE {x \cup y : x \in Opt(A, {"dir", "proj", "link"}), y \in Child(W, "ws")}
       [] OTHER -> IF d = 0 THEN {{}} ELSE Opt(A, {"dir", "proj", "link"})

\* (2) spines: one chain of any shape down to depth d, plus at most s side branches taken from a
\*     fixed menu and hung on any node of the chain
MainSteps(pk) ==
  CASE pk = "ws" -> {<<I1, "job">>, <<I1, "jobproj">>, <<I1, "link">>}
    [] pk \in ProjKinds -> {<<A, "dir">>, <<A, "proj">>, <<A, "link">>, <<W, "ws">>}
    [] pk \in {"dir", "job"} -> {<<A, "dir">>, <<A, "proj">>, <<A, "link">>}
    [] OTHER -> {}
SideOpts(pk, mainName) ==
  CASE pk = "ws" -> {{Mk(<<I2>>, "job")}, {Mk(<<I2>>, "jobproj"), Mk(<<I2, W>>, "ws")}, {Mk(<<I2>>, "link")}}
    [] pk \in DirKinds ->
         {{Mk(<<B>>, "dir")}, {Mk(<<B>>, "link")},
          {Mk(<<B>>, "proj"), Mk(<<B, W>>, "ws")},
          {Mk(<<B>>, "proj"), Mk(<<B, W>>, "ws"), Mk(<<B, W, I2>>, "job")},
          {Mk(<<N31>>, "dir"), Mk(<<N31, NUP>>, "proj"), Mk(<<N31, NUP, W>>, "ws")}}
         \cup (IF pk \in ProjKinds /\ mainName # W
               THEN {{Mk(<<W>>, "ws"), Mk(<<W, I2>>, "job")},
                     {Mk(<<W>>, "ws"), Mk(<<W, I2>>, "jobproj"), Mk(<<W, I2, W>>, "ws")}}
               ELSE {})
    [] OTHER -> {}
RECURSIVE Spine(_, _, _)
Spine(pk, d, s) ==
  IF pk = "link" THEN {{}}
  ELSE LET mains == (IF d = 0 THEN {} ELSE MainSteps(pk)) \cup {<<"", "none">>}
           ForMain(m) ==
             LET below(s2) == IF m[2] = "none" THEN {{}}
                              ELSE {{Mk(<<m[1]>>, m[2])} \cup Shift(m[1], r) : r \in Spine(m[2], d - 1, s2)}
                 ws0 == IF pk \in ProjKinds /\ m[1] # W THEN {Mk(<<W>>, "ws")} ELSE {}
             IN {x \cup ws0 : x \in below(s)}
                \cup (IF s = 0 \/ d = 0 THEN {}
                      ELSE {x \cup sd \cup ws0 : x \in below(s - 1), sd \in SideOpts(pk, m[1])})
       IN UNION {ForMain(m) : m \in mains}

\* (3) random wide / deep trees of depth 5 over five child names.  Function sets such as [Slots -> Codes] are far too
\*     large for RandomSubset (and RandomSubset is re-drawn by every TLC worker's copy of the constants), so the
\*     family is NSAMPLE seeds derived from SEED0 and every node's code is a small linear-congruential hash of
\*     (seed, path) - all arithmetic stays below 2^31, the family is a deterministic function of SEED0.
Names5 == {A, B, W, I1, I2}
NameIdx(nm) == CASE nm = A -> 1 [] nm = B -> 2 [] nm = W -> 3 [] nm = I1 -> 4 [] nm = I2 -> 5 [] OTHER -> 6
RECURSIVE PathHash(_, _)
PathHash(seed, p) == IF p = <<>> THEN seed % 65537
                     ELSE (PathHash(seed, Front(p)) * 75 + NameIdx(Last(p)) * 7919 + 74) % 65537
Code(seed, p) == (PathHash(seed, p) \div 7) % 16
Code2Kind(pk, nm, c) ==      \* codes 0..15; about half of the slots stay empty so that trees stay small
  CASE pk = "ws" /\ nm \in {I1, I2} -> (CASE c <= 6 -> "none" [] c <= 11 -> "job" [] c <= 14 -> "jobproj" [] OTHER -> "link")
    [] pk \in DirKinds /\ nm \in {A, B} -> (CASE c <= 7 -> "none" [] c <= 10 -> "dir" [] c <= 14 -> "proj" [] OTHER -> "link")
    [] pk \in ProjKinds /\ nm = W -> "ws"
    [] OTHER -> "none"
RECURSIVE Decode(_, _, _, _)
Decode(f, p, pk, d) ==
  IF d = 0 THEN (IF pk \in ProjKinds THEN {Mk(Append(p, W), "ws")} ELSE {})
  ELSE UNION {LET k == Code2Kind(pk, nm, Code(f, Append(p, nm)))
              IN IF k = "none" THEN {} ELSE {Mk(Append(p, nm), k)} \cup Decode(f, Append(p, nm), k, d - 1)
              : nm \in Names5}
RootKind(f) == IF f % 2 = 0 THEN "dir" ELSE "proj"

\* link targets
LinkPaths(t) == {n.p : n \in {m \in t : m.k = "link"}}
Targets(t)   == {n.p : n \in {m \in t : m.k \notin {"link", "ws"}}} \cup {NONE}
Assign(t) == {{IF n.k = "link" THEN [n EXCEPT !.tgt = f[n.p]] ELSE n : n \in t} : f \in [LinkPaths(t) -> Targets(t)]}
\* pseudo-random but deterministic target choice for the sampled family
AssignBy(t, f) ==
  LET ts == SetToSeq(Targets(t))
      pick(lp) == ts[(PathHash(f + 1, lp) % Len(ts)) + 1]
  IN {IF n.k = "link" THEN [n EXCEPT !.tgt = pick(n.p)] ELSE n : n \in t}

WithRoot(rk, s) == {Mk(<<>>, rk)} \cup s
DepthOK(t, d) == \A n \in t : Len(n.p) <= d \/ (n.k = "ws" /\ Len(n.p) = d + 1)
NLinks(s) == Cardinality(LinkPaths(s))
Skeletons ==
  UNION {{WithRoot(rk, s) : s \in {x \in Full(rk, FULLDEPTH) : NLinks(x) <= FULLLINKS}} \cup
         {WithRoot(rk, s) : s \in {x \in Spine(rk, DEPTH, SIDES) : DepthOK(x, DEPTH) /\ NLinks(x) <= MAXLINKS}} : rk \in {"dir", "proj"}}
Exhaustive == UNION {Assign(t) : t \in Skeletons}
Sampled ==
  IF NSAMPLE = 0 THEN {}
  ELSE LET raw == {AssignBy(WithRoot(RootKind(f), Decode(f, <<>>, RootKind(f), 5)), f) : f \in {(((SEED0 % 60000) + 7919 * i) % 60000) + 1 : i \in 1..NSAMPLE}}
       IN {t \in raw : Cardinality(LinkPaths(t)) <= 3 /\ Cardinality(t) <= 40}
\* (4) symlinked job directories across projects (always part of the enumeration; 12 trees): project PA at a/ has the
\*     real job directory a/workspace/I1 (plain job or job-with-nested-project) with a plain sub-directory; project
\*     PB (at b/, or the root itself) has in ITS workspace an id-named symlink - named I1 (same id) or I2 (different
\*     id) - pointing to PA's job directory.  Queries then include the link path and the sub-directory below it.
CrossLinks ==
  {LET pb  == IF c[1] = "root" THEN <<>> ELSE <<B>>
       rk  == IF c[1] = "root" THEN "proj" ELSE c[2]
       jd  == <<A, W, I1>>
       base == {Mk(<<>>, rk), Mk(<<A>>, "proj"), Mk(<<A, W>>, "ws"), Mk(jd, c[3]), Mk(jd \o <<A>>, "dir")}
               \cup (IF c[3] = "jobproj" THEN {Mk(jd \o <<W>>, "ws")} ELSE {})
               \cup (IF rk = "proj" THEN {Mk(<<W>>, "ws")} ELSE {})
               \cup (IF pb = <<>> THEN {} ELSE {Mk(<<B>>, "proj"), Mk(<<B, W>>, "ws")})
   IN base \cup {[p |-> pb \o <<W, c[4]>>, k |-> "link", tgt |-> jd]}
   : c \in ({"root"} \X {"proj"} \X {"job", "jobproj"} \X {I1, I2})
            \cup ({"b"} \X {"dir", "proj"} \X {"job", "jobproj"} \X {I1, I2})}
FileIn == IF MODE = "file" THEN ndJsonDeserialize(IOEnv.TREES_FILE) ELSE <<>>
FileTree(i) == {FileIn[i].nodes[j] : j \in 1..Len(FileIn[i].nodes)}
Trees == IF MODE = "file" THEN {FileTree(i) : i \in 1..Len(FileIn)} ELSE Exhaustive \cup Sampled \cup CrossLinks
TreeSeq == SetToSeq(Trees)

---------------------------------------------------------------------------
(* file-system view of a tree *)
Has(t, p) == \E n \in t : n.p = p
At(t, p)  == CHOOSE n \in t : n.p = p

\* physical location of the lexical path q (links followed, as the kernel does), or NONE
RECURSIVE Resolve(_, _)
Resolve(t, q) ==
  IF q = <<>> THEN <<>>
  ELSE LET par == Resolve(t, Front(q)) IN
       IF par = NONE THEN NONE
       ELSE LET c == Append(par, Last(q)) IN
            IF ~Has(t, c) THEN NONE
            ELSE IF At(t, c).k = "link" THEN (IF Has(t, At(t, c).tgt) THEN At(t, c).tgt ELSE NONE)
            ELSE c
Exists(t, q)   == Resolve(t, q) # NONE                                   \* os.path.exists
IsProjAt(t, p) == Exists(t, p) /\ At(t, Resolve(t, p)).k \in ProjKinds    \* isfile(p/.signac/config)
Phys(t, q)     == Resolve(t, q)                                          \* what getcwd() says after chdir(q)

---------------------------------------------------------------------------
(* the operations, written as the code works *)
Err         == [ok |-> FALSE, path |-> <<>>, id |-> "", dir |-> <<>>]     \* LookupError
OkP(p)      == [ok |-> TRUE, path |-> p, id |-> "", dir |-> <<>>]
OkJ(p, i, d) == [ok |-> TRUE, path |-> p, id |-> i, dir |-> d]

RECURSIVE LocateUp(_, _)        \* _locate_config_dir; nothing above the sandbox root is a project
LocateUp(t, p) == IF IsProjAt(t, p) THEN p ELSE IF p = <<>> THEN NONE ELSE LocateUp(t, Front(p))

GetProject(t, q, search) ==
  IF ~Exists(t, q) THEN Err
  ELSE IF ~search /\ ~IsProjAt(t, q) THEN Err
  ELSE LET p == LocateUp(t, q) IN IF p = NONE THEN Err ELSE OkP(p)

OpenProject(t, q) == IF IsProjAt(t, q) THEN OkP(q) ELSE Err              \* Project(q)

IdPositions(q) == {i \in 1..Len(q) : q[i] \in Ids}
GetJob(t, q) ==
  IF ~Exists(t, q) THEN Err
  ELSE IF IdPositions(q) = {} THEN Err
  ELSE LET i  == Max(IdPositions(q))                  \* the LAST id-like component
           jp == SubSeq(q, 1, i)
           pr == LocateUp(t, Front(jp))               \* project searched from its parent
       IN IF pr = NONE THEN Err ELSE OkJ(pr, q[i], jp)

\* init_project(q): enabled where the harness calls it (q exists, or only its last component is missing)
InitEnabled(t, q) ==
  /\ q # <<>> => Exists(t, Front(q))
  /\ Exists(t, q) => At(t, Resolve(t, q)).k \in DirKinds
  /\ ~Exists(t, q) => ~Has(t, Append(Resolve(t, Front(q)), Last(q)))     \* not a dangling link
  /\ ~Exists(t, q) => At(t, Resolve(t, Front(q))).k \in DirKinds \cup {"ws"}
InitProject(t, q) ==
  IF IsProjAt(t, q) THEN [res |-> OkP(q), tree |-> t, added |-> {}]
  ELSE LET r   == IF Exists(t, q) THEN Resolve(t, q) ELSE Append(Resolve(t, Front(q)), Last(q))
           old == IF Has(t, r) THEN {At(t, r)} ELSE {}
           nk  == IF Has(t, r) THEN (IF At(t, r).k = "job" THEN "jobproj" ELSE "proj")
                  ELSE IF At(t, Front(r)).k = "ws" THEN "jobproj" ELSE "proj"
           new == {Mk(r, nk)} \cup (IF Has(t, Append(r, W)) THEN {} ELSE {Mk(Append(r, W), "ws")})
       IN [res |-> OkP(q), tree |-> (t \ old) \cup new, added |-> new]

\* removing a project by hand (delete .signac/ and the - empty - workspace directory): the inverse of InitProject.
\* Enabled for a physical path of a project whose workspace holds nothing.
DeinitEnabled(t, q) ==
  /\ IsProjAt(t, q) /\ Resolve(t, q) = q
  /\ ~\E n \in t : Len(n.p) > Len(q) + 1 /\ SubSeq(n.p, 1, Len(q) + 1) = Append(q, W)
Deinit(t, q) ==
  LET nk == IF At(t, q).k = "jobproj" THEN "job" ELSE "dir"
  IN (t \ {At(t, q), At(t, Append(q, W))}) \cup {Mk(q, nk)}

---------------------------------------------------------------------------
(* the requirements of the property, declaratively *)
PrefixesOf(q) == {SubSeq(q, 1, k) : k \in 0..Len(q)}
Longest(S)  == CHOOSE p \in S : \A r \in S : Len(r) <= Len(p)

\* get_project(search=True): the nearest enclosing initialised project, LookupError when nothing matches
NearestOK(t, q, a) ==
  LET E == {p \in PrefixesOf(q) : IsProjAt(t, p)} IN
  IF ~Exists(t, q) \/ E = {} THEN a = Err
  ELSE /\ a.ok /\ a.path \in E
       /\ ~\E p \in E : Len(p) > Len(a.path)          \* no project strictly between the answer and q
\* get_project(search=False) / Project(): only the exact directory
ExactOK(t, q, a) == IF Exists(t, q) /\ IsProjAt(t, q) THEN a = OkP(q) ELSE a = Err
\* get_job: the innermost job directory containing q and the project whose workspace holds it
IsWsAt(t, w)  == Len(w) >= 1 /\ Last(w) = W /\ IsProjAt(t, Front(w))
JobDirs(t, q) == {p \in PrefixesOf(q) : Len(p) >= 2 /\ Last(p) \in Ids /\ IsWsAt(t, Front(p))}
JobOK(t, q, a) ==
  IF ~Exists(t, q) \/ JobDirs(t, q) = {} THEN a = Err
  ELSE LET jd == Longest(JobDirs(t, q)) IN a = OkJ(Front(Front(jd)), Last(jd), jd)

Candidates(q) == {Err} \cup {OkP(p) : p \in PrefixesOf(q)}

\* Which via-symlink answers does the PROPERTY TEXT itself determine (so that a disagreement is a violation, not a
\* drift of CAL_Lexical)?  The quantifier names "symlinked job directories" and the statement says get_job returns
\* "the project whose workspace holds" the job directory: when the only symbolic link on the query path is the
\* innermost job directory itself (an id-named link standing in a project's workspace), the project is the one
\* whose workspace holds that link and the job directory is the link path - whatever the link points to.
LinksCrossed(t, q) == {p \in PrefixesOf(q) : p # <<>> /\ Resolve(t, Front(p)) # NONE
                                            /\ Has(t, Append(Resolve(t, Front(p)), Last(p)))
                                            /\ At(t, Append(Resolve(t, Front(p)), Last(p))).k = "link"}
SymlinkedJobDirDetermined(t, q) == LET a == GetJob(t, q) IN a.ok /\ LinksCrossed(t, q) = {a.dir}

WellFormed(t) ==
  /\ Has(t, <<>>)
  /\ \A n \in t : n.k \in Kinds /\ (n.p # <<>> => Has(t, Front(n.p)))                    \* prefix closed
  /\ \A n \in t : Cardinality({m \in t : m.p = n.p}) = 1
  /\ \A n \in t : n.p # <<>> =>
        LET par == At(t, Front(n.p)) IN
        /\ par.k # "link"                                                                \* links are leaves
        /\ (n.k = "ws") <=> (Last(n.p) = W)
        /\ n.k = "ws" => par.k \in ProjKinds
        /\ (Last(n.p) \in Ids) <=> (par.k = "ws")                                       \* ids only in workspaces
        /\ n.k \in {"job", "jobproj"} => par.k = "ws"
        /\ par.k = "ws" => n.k \in {"job", "jobproj", "link"}
  /\ \A n \in t : n.k \in ProjKinds => Has(t, Append(n.p, W))                            \* as init_project leaves it
  /\ \A n \in t : n.k = "link" => (n.tgt = NONE \/ (Has(t, n.tgt) /\ At(t, n.tgt).k \notin {"link", "ws"}))
  /\ \A n \in t : n.k # "link" => n.tgt = NONE

---------------------------------------------------------------------------
(* The command line front end (signac/__main__.py).  Every command is its own process started in a directory cwd;
   it calls get_project() / init_project(os.getcwd()) and os.getcwd() is the PHYSICAL path of cwd (CAL_Cwd).  The
   command-level operators are COMPOSITIONS of the library-level ones, so the two front ends cannot drift apart.
     signac job / find / statepoint / ...   answer for the project CliProject(t, cwd); exit status 1 without one
     signac job -p '<sp>'                   prints <project>/workspace/<id>: identifies the answering project
     signac find                            prints the names standing in that project's workspace; a dangling
                                            id-named link makes it fail (exit 1) - CAL_CliFind
     signac statepoint                      reads every job of that project: exit 0 iff every workspace entry is a job
                                            directory or a link to a job directory of the SAME id - CAL_CliStatepoint
     signac init                            = InitProject at the physical cwd: exit 0 whether or not the project exists
                                            (a second init is a no-op), creates the project exactly there          *)
CliProject(t, cwd) == GetProject(t, Phys(t, cwd), TRUE)
CliStatus(a)       == IF a.ok THEN 0 ELSE 1
WsEntries(t, pr)   == {n \in t : Len(n.p) = Len(pr) + 2 /\ IsPrefix(Append(pr, W), n.p)}
CliFind(t, cwd) ==
  LET a == CliProject(t, cwd) IN
  IF ~a.ok THEN [st |-> 1, ids |-> <<>>]
  ELSE IF \E n \in WsEntries(t, a.path) : n.k = "link" /\ ~Has(t, n.tgt) THEN [st |-> 1, ids |-> <<>>]
  ELSE [st |-> 0, ids |-> SetToSeq({Last(n.p) : n \in WsEntries(t, a.path)})]
CliStatepointStatus(t, cwd) ==
  LET a == CliProject(t, cwd) IN
  IF ~a.ok THEN 1
  ELSE IF \A n \in WsEntries(t, a.path) :
            \/ n.k \in {"job", "jobproj"}
            \/ (n.k = "link" /\ Has(t, n.tgt) /\ At(t, n.tgt).k \in {"job", "jobproj"} /\ Last(n.tgt) = Last(n.p))
       THEN 0 ELSE 1
CliInitEnabled(t, cwd) == Exists(t, cwd) /\ InitEnabled(t, Phys(t, cwd))
CliInit(t, cwd)        == InitProject(t, Phys(t, cwd))

---------------------------------------------------------------------------
(* queries *)
Below(t, p)  == {n.p : n \in {m \in t : IsPrefix(p, m.p) /\ m.p # p}}
Through(t)   == UNION {{n.p \o SubSeq(x, Len(n.tgt) + 1, Len(x)) : x \in {y \in Below(t, n.tgt) : Len(n.p) + Len(y) - Len(n.tgt) <= 7}}
                       : n \in {m \in t : m.k = "link" /\ Has(t, m.tgt)}}
Missing(t)   == {Append(n.p, NX) : n \in {m \in t : m.k \in DirKinds}}
                \cup {Append(n.p, I3) : n \in {m \in t : m.k = "ws"}}
                \cup {n.p \o <<NX, W, I1>> : n \in {m \in t : m.k \in ProjKinds /\ Len(m.p) <= 2}}
Queries(t)   == {n.p : n \in t} \cup Through(t) \cup Missing(t)

---------------------------------------------------------------------------
VARIABLES q, ph, t, last
vars == <<q, ph, t, last>>

(* Histories.  ph = 0: a tree has been chosen; PickQuery chooses the path q (ph = 1); then up to two steps, each
   an init_project(q) or a removal of the project at q, in any order the guards allow.  Every invariant below is a
   STATE predicate over the current tree only: whatever was asked or initialised before, in whatever order, the
   answers are functions of the tree as it is now (no memory of earlier calls). *)
Init == \E tr \in Trees : t = tr /\ q = NONE /\ ph = 0 /\ last = "none"
PickQuery    == /\ ph = 0 /\ \E qq \in Queries(t) : q' = qq
                /\ ph' = 1 /\ UNCHANGED <<t, last>>
InitExisting == /\ ph \in {1, 2} /\ InitEnabled(t, q) /\ IsProjAt(t, q)
                /\ t' = InitProject(t, q).tree /\ ph' = ph + 1 /\ last' = "init" /\ UNCHANGED q
InitCreate   == /\ ph \in {1, 2} /\ InitEnabled(t, q) /\ ~IsProjAt(t, q)
                /\ t' = InitProject(t, q).tree /\ ph' = ph + 1 /\ last' = "init" /\ UNCHANGED q
RemoveProject == /\ ph \in {1, 2} /\ DeinitEnabled(t, q)
                 /\ t' = Deinit(t, q) /\ ph' = ph + 1 /\ last' = "remove" /\ UNCHANGED q
Next == PickQuery \/ InitExisting \/ InitCreate \/ RemoveProject

(* checked in every state, i.e. also on the trees init_project has produced *)
TypeOK       == WellFormed(t)
Nearest      == ph > 0 => NearestOK(t, q, GetProject(t, q, TRUE))
Determinism  == ph > 0 => Cardinality({a \in Candidates(q) : NearestOK(t, q, a)}) = 1
ExactOnly    == ph > 0 => ExactOK(t, q, GetProject(t, q, FALSE)) /\ ExactOK(t, q, OpenProject(t, q))
JobInnermost == ph > 0 => JobOK(t, q, GetJob(t, q))
MissingRaises == ph > 0 /\ ~Exists(t, q) => GetProject(t, q, TRUE) = Err /\ GetProject(t, q, FALSE) = Err
                                            /\ GetJob(t, q) = Err /\ OpenProject(t, q) = Err
InitFindsIt  == ph > 0 /\ InitEnabled(t, q) => LET r == InitProject(t, q) IN
                  /\ r.res = OkP(q) /\ GetProject(r.tree, q, FALSE) = OkP(q)
                  /\ \A n \in t : n.k # At(r.tree, n.p).k => n.p = Resolve(r.tree, q)   \* nothing else touched
(* init_project on an existing project: the tree is unchanged; a second call never changes anything *)
\* the same promises to the user of the command line (cwd = q)
CliNearest  == ph > 0 /\ Exists(t, q) => NearestOK(t, Phys(t, q), CliProject(t, q))
                                          /\ (~CliProject(t, q).ok => CliFind(t, q).st = 1 /\ CliStatepointStatus(t, q) = 1)
CliInitHere == ph > 0 /\ CliInitEnabled(t, q) =>
                 LET r == CliInit(t, q) IN
                 /\ CliProject(r.tree, q) = OkP(Phys(t, q))                  \* exactly there, even below another project
                 /\ (IsProjAt(t, Phys(t, q)) => r.tree = t)                   \* on an existing project: unchanged
                 /\ CliInit(r.tree, q).tree = r.tree                          \* a second init is a no-op
InitIdempotent == [][last' = "init" /\ ph > 0 /\ IsProjAt(t, q) => t' = t]_vars
SecondInitNoop == [][last = "init" /\ last' = "init" => t' = t]_vars
\* removal undoes creation exactly (so that the histories create -> remove -> create ... stay inside the grammar)
RemoveUndoesInit == ph > 0 /\ InitEnabled(t, q) /\ ~IsProjAt(t, q) /\ Exists(t, q) /\ Resolve(t, q) = q
                      => DeinitEnabled(InitProject(t, q).tree, q) /\ Deinit(InitProject(t, q).tree, q) = t

---------------------------------------------------------------------------
(* export: one record per tree with every query and the expected answers *)
NodeSeq(s) == SetToSeq(s)
\* the answers to all four questions, and which queries of a tree change their answers when the tree becomes t2
Answers(tr, qq) == [q |-> qq, gp |-> GetProject(tr, qq, TRUE), gpx |-> GetProject(tr, qq, FALSE),
                    open |-> OpenProject(tr, qq), job |-> GetJob(tr, qq)]
\* base = the answers on t1 (computed once per tree); only physical, existing paths get the full re-query history
Changed(base, t2) == SetToSeq({Answers(t2, y) : y \in {x \in DOMAIN base : Answers(t2, x) # base[x]}})
\* (a path nothing stands below and no link points to cannot change any other answer: no history needed for it)
Hist(tr, qq) == /\ Exists(tr, qq) /\ Resolve(tr, qq) = qq
                /\ \E n \in tr : (n.p # qq /\ IsPrefix(qq, n.p)) \/ (n.k = "link" /\ n.tgt = qq)
CaseOf(tr, qq, base) ==
  [q |-> qq, exists |-> Exists(tr, qq), phys |-> Phys(tr, qq), det |-> SymlinkedJobDirDetermined(tr, qq),
   gp |-> base[qq].gp, gpx |-> base[qq].gpx, open |-> base[qq].open, job |-> base[qq].job,
   init |-> IF InitEnabled(tr, qq)
            THEN [enabled |-> TRUE, existing |-> IsProjAt(tr, qq), res |-> InitProject(tr, qq).res,
                  added |-> NodeSeq(InitProject(tr, qq).added),
                  after |-> GetProject(InitProject(tr, qq).tree, qq, TRUE),
                  hist |-> ~IsProjAt(tr, qq) /\ Hist(tr, qq),
                  changed |-> IF ~IsProjAt(tr, qq) /\ Hist(tr, qq) THEN Changed(base, InitProject(tr, qq).tree) ELSE <<>>]
            ELSE [enabled |-> FALSE, existing |-> FALSE, res |-> Err, added |-> <<>>, after |-> Err, hist |-> FALSE, changed |-> <<>>],
   cli |-> IF Exists(tr, qq)
           THEN [cwd |-> TRUE, which |-> CliProject(tr, qq), find |-> CliFind(tr, qq), spst |-> CliStatepointStatus(tr, qq),
                 init |-> IF CliInitEnabled(tr, qq)
                          THEN [enabled |-> TRUE, existing |-> IsProjAt(tr, Phys(tr, qq)), added |-> NodeSeq(CliInit(tr, qq).added),
                                after |-> CliProject(CliInit(tr, qq).tree, qq)]
                          ELSE [enabled |-> FALSE, existing |-> FALSE, added |-> <<>>, after |-> Err]]
           ELSE [cwd |-> FALSE, which |-> Err, find |-> [st |-> 1, ids |-> <<>>], spst |-> 1,
                 init |-> [enabled |-> FALSE, existing |-> FALSE, added |-> <<>>, after |-> Err]],
   remove |-> IF DeinitEnabled(tr, qq) THEN [enabled |-> TRUE, changed |-> Changed(base, Deinit(tr, qq))]
              ELSE [enabled |-> FALSE, changed |-> <<>>]]
\* CAL_DeviceBlind: the node sets the harness moves onto the other file system, one set at a time
HasChild(tr, p) == \E n \in tr : Len(n.p) = Len(p) + 1 /\ IsPrefix(p, n.p)
MountSets(tr) ==
  [ws  |-> SetToSeq({n.p : n \in {m \in tr : m.k = "ws"}}),
   job |-> SetToSeq({n.p : n \in {m \in tr : m.k \in {"job", "jobproj"}}}),
   dir |-> SetToSeq({n.p : n \in {m \in tr : m.k \in {"dir", "proj"} /\ m.p # <<>> /\ HasChild(tr, m.p)}})]
TreeRec(tr) ==
  LET qs == SetToSeq(Queries(tr))
      base == [y \in Queries(tr) |-> Answers(tr, y)]
  IN [nodes |-> NodeSeq(tr), mounts |-> MountSets(tr), cases |-> [j \in 1..Len(qs) |-> CaseOf(tr, qs[j], base)]]
\* code -> spec: is every recorded observation the answer of the specification?
ObsOK(tr, o) == /\ GetProject(tr, o.q, TRUE) = o.gp /\ GetProject(tr, o.q, FALSE) = o.gpx
                /\ OpenProject(tr, o.q) = o.open /\ GetJob(tr, o.q) = o.job
Judge(i) == LET tr == FileTree(i)
                ob == FileIn[i].obs
            IN [wf |-> WellFormed(tr),
                bad |-> SelectSeq([j \in 1..Len(ob) |-> j], LAMBDA j : ~ObsOK(tr, ob[j])),
                exp |-> [j \in 1..Len(ob) |-> [exists |-> Exists(tr, ob[j].q), phys |-> Phys(tr, ob[j].q),
                                               det |-> SymlinkedJobDirDetermined(tr, ob[j].q), gp |-> GetProject(tr, ob[j].q, TRUE), gpx |-> GetProject(tr, ob[j].q, FALSE),
                                               open |-> OpenProject(tr, ob[j].q), job |-> GetJob(tr, ob[j].q)]]]
Export == /\ TLCGet("level") >= 0
          /\ IF MODE = "file"
             THEN ndJsonSerialize(IOEnv.CASES_OUT, [i \in 1..Len(FileIn) |-> Judge(i)])
             ELSE LET ts == TreeSeq IN ndJsonSerialize(IOEnv.CASES_OUT, [i \in 1..Len(ts) |-> TreeRec(ts[i])])
=====================================================================

----------------------------- MODULE Migration -----------------------------
(* C20: the schema-version gate and the migration chain.

   A project directory is abstracted to a layout record (uniform shape):
     where    "rc"  : configuration in signac.rc (schema 0 / 1 layouts)
              "cfg" : configuration in .signac/config (schema 2 layout)
     ver      text of the schema_version entry: "absent" | "0" | "1" | "2" | "3" | "10"
     name     value of the `project` entry ("" = no such entry): "None" (the v1 default) | "plain" | "fancy"
              (the harness maps the tokens to real ASCII names, "fancy" has spaces, comma, quote, '#', brackets)
     wsKey    spelling of the `workspace_dir` entry ("" = no entry); each spelling designates a location (LocOf):
                "workspace" 'workspace'   "dotws" './workspace'   "wsslash" 'workspace/'        -> workspace
                "custom" 'my_workspace'   "custom2" 'workspace2'                                 -> custom / custom2
                "dotcustom" './ws'        "customslash" 'ws/'                                    -> ws
                "nested" 'data/ws dir'    "nestedws" 'scratch/workspace'   "deepws" 'a/b/workspace'  (nested paths;
                the last two END in a component that is itself called 'workspace')
     dirs     what stands at each candidate workspace location:  "absent" | "jobs" (the directory that holds
              the job directories) | "stray" (an unrelated directory with a file in it) | "empty" (an empty
              directory, as created by opening a project that had no 'workspace')
     dataDir  the parent directory of the nested custom workspace exists
     cache / hist   "none" | "root" (.signac_sp_cache.json.gz / .signac_shell_history) | "dot" (.signac/...)
     njobs    number of jobs (each with a fixed state point, optional document and files - a table in the harness)
     pdocUser the project document has user content;  pdocName  its signac_project_name entry ("" = none)
     cfgExtra an unrelated entry in the configuration file
     lock     the migration lock file exists

   Operations: Project / get_project / get_project from a sub-directory / init_project  (the gate), and
   apply_migrations, written as the chain of sub-steps the code performs under the lock.  One step function
   (Step) drives both the TLC actions and RunMig, the function the exported expectations are computed with.

   Calibrated rules (property silent; pinned-tree behaviour):
     CAL_NoLegacyFile  migrating a .signac/config that declares (or defaults to) a version below 2 is not a
                       legacy layout signac ever wrote: RuntimeError, nothing changed.
     CAL_NullBump      a failing 1 -> 2 step leaves the version already bumped to 1 by the 0 -> 1 step.
     CAL_DataDir       the emptied parent of a nested custom workspace stays behind.
     DEVIATION D1 (constant FixedD1, probed by the harness): the pinned tree compares the workspace_dir TEXT with
                       'workspace'; './workspace' and 'workspace/' - the default location spelled differently - are
                       taken for a custom directory that collides with itself, and the migration is refused
                       (RuntimeError, nothing lost).  The REQUIREMENT (MigratePreserves with fx = TRUE, exported as
                       `req`) is that such a project migrates like the default one.
     CAL_OpenCreatesWorkspace  successfully opening an up-to-date project that has no 'workspace' directory
                       creates an empty one (and nothing else); a REFUSED open creates nothing.

   Histories: Project/get_project/init_project is one step.  apply_migrations is the chain; afterwards the
   history continues: if it was refused because of a colliding 'workspace', the collision is resolved (the stray
   directory removed) and the migration run again - it must then succeed with everything preserved
   (CollisionRecoverable); otherwise it is simply run again (SecondNoop); finally the project is opened.    *)
EXTENDS Naturals, Sequences, FiniteSets, TLC, Json, IOUtils, SequencesExt

CONSTANTS NJ,       \* set of job counts, subset of 0..5
          SMALL,    \* TRUE: tie some independent boolean options together (quick tier)
          MODE,     \* "product" | "file" (layouts recorded by the harness from randomly generated real projects)
          FixedD1   \* FALSE: model deviation D1 as the pinned tree behaves; TRUE: the requirement

Vers   == {"absent", "0", "1", "2", "3", "10"}
WsLocs == {"workspace", "custom", "custom2", "ws", "nested", "nestedws", "deepws"}
Num(v) == CASE v = "absent" -> 0 [] v = "0" -> 0 [] v = "1" -> 1 [] v = "2" -> 2 [] v = "3" -> 3 [] v = "10" -> 10

\* which directory a workspace_dir spelling designates
LocOf(k) == CASE k \in {"", "workspace", "dotws", "wsslash"} -> "workspace"
              [] k \in {"dotcustom", "customslash"} -> "ws"
              [] OTHER -> k                                \* custom custom2 nested nestedws deepws
NestedLocs == {"nested", "nestedws", "deepws"}            \* their parent directories stay behind (CAL_DataDir)
SelfSpelled(k) == k \in {"dotws", "wsslash"}              \* the default location, not spelled 'workspace'

NoDirs == [w \in WsLocs |-> "absent"]
JobsAt(loc) == [NoDirs EXCEPT ![loc] = "jobs"]
Dirs(w, c, n) == [NoDirs EXCEPT !.workspace = w, !.custom = c, !.nested = n]

\* the exhaustive product of the option sets
WsOptions ==   \* <<wsKey, dirs, dataDir>>: every spelling with its jobs in place; every real custom location also
               \* colliding with an existing, unrelated 'workspace'
  {<<k, JobsAt(LocOf(k)), LocOf(k) \in NestedLocs>>
     : k \in {"", "workspace", "dotws", "wsslash", "custom", "custom2", "dotcustom", "customslash", "nested", "nestedws", "deepws"}}
  \cup {<<k, [JobsAt(LocOf(k)) EXCEPT !.workspace = "stray"], LocOf(k) \in NestedLocs>>
         : k \in {"custom", "nested", "nestedws", "deepws", "customslash"}}
Bools(tied) == IF SMALL THEN {<<b, b>> : b \in BOOLEAN} ELSE BOOLEAN \X BOOLEAN
RcLayouts ==
  {[where |-> "rc", ver |-> v, name |-> nm, wsKey |-> w[1], dirs |-> w[2], dataDir |-> w[3],
    cache |-> IF ch[1] THEN "root" ELSE "none", hist |-> IF ch[2] THEN "root" ELSE "none",
    njobs |-> n, pdocUser |-> ux[1], pdocName |-> "", cfgExtra |-> ux[2], lock |-> FALSE]
   : v \in {"absent", "0", "1", "3", "10"}, nm \in (IF SMALL THEN {"None", "fancy"} ELSE {"None", "plain", "fancy"}), w \in WsOptions,
     ch \in Bools(TRUE), n \in NJ, ux \in Bools(TRUE)}
CfgWs ==   \* current-layout projects: with their workspace, or WITHOUT any 'workspace' directory (the job directories
           \* then sit in a custom-named data directory the configuration does not mention; only with >= 1 job)
  {Dirs("jobs", "absent", "absent"), Dirs("absent", "jobs", "absent")}
CfgLayouts ==
  {l \in {[where |-> "cfg", ver |-> v, name |-> "", wsKey |-> "", dirs |-> d, dataDir |-> FALSE,
            cache |-> IF ch[1] THEN "dot" ELSE "none", hist |-> IF ch[2] THEN "dot" ELSE "none",
            njobs |-> n, pdocUser |-> ux[1], pdocName |-> pn, cfgExtra |-> ux[2], lock |-> FALSE]
           : v \in Vers, ch \in Bools(TRUE), n \in NJ, ux \in Bools(TRUE), pn \in {"", "plain"}, d \in CfgWs}
      : l.dirs.workspace = "jobs" \/ l.njobs > 0}
FileIn  == IF MODE = "file" THEN ndJsonDeserialize(IOEnv.CASES_FILE) ELSE <<>>
Layouts == IF MODE = "file" THEN {FileIn[i].l0 : i \in 1..Len(FileIn)} ELSE RcLayouts \cup CfgLayouts

OpenOps == {"Project", "get_project", "get_project_sub", "init_project"}
Ops     == OpenOps \cup {"migrate"}

---------------------------------------------------------------------------
UpToDate(l) == l.where = "cfg" /\ l.ver = "2"
Legacy(l)   == l.where = "rc" /\ l.ver \in {"absent", "0", "1"}
Colliding(l) == LocOf(l.wsKey) # "workspace" /\ l.dirs.workspace # "absent"
SelfColliding(l) == SelfSpelled(l.wsKey) /\ ~FixedD1                       \* DEVIATION D1 is active for this layout

\* the gate: every way of opening refuses anything but the supported version, and never writes
Gate(l) == IF UpToDate(l) THEN "ok" ELSE "IncompatibleSchemaVersion"
\* the only thing a successful open may do to the directory (CAL_OpenCreatesWorkspace); a refused open does nothing
OpenEffect(l) == IF UpToDate(l) /\ l.dirs.workspace = "absent" THEN [l EXCEPT !.dirs.workspace = "empty"] ELSE l
\* resolving a collision by hand: the stray 'workspace' directory is removed
Resolved(l) == [l EXCEPT !.dirs.workspace = "absent"]

\* one step of apply_migrations.  s = [pc, L, res]
Step(s, fx) ==
  LET L == s.L IN
  CASE s.pc = "start"  -> [s EXCEPT !.pc = "locked", !.L.lock = TRUE]
    [] s.pc = "locked" ->                                   \* _collect_migrations
         IF Num(L.ver) > 2 THEN [s EXCEPT !.pc = "unlock", !.res = "RuntimeError"]          \* newer than supported
         ELSE IF UpToDate(L) THEN [s EXCEPT !.pc = "unlock"]                                \* nothing to do
         ELSE IF L.where = "cfg" THEN [s EXCEPT !.pc = "unlock", !.res = "RuntimeError"]    \* CAL_NoLegacyFile
         ELSE IF Num(L.ver) = 0 THEN [s EXCEPT !.pc = "m01"] ELSE [s EXCEPT !.pc = "m12_ws"]
    [] s.pc = "m01"    -> [s EXCEPT !.pc = "bump1"]                                         \* null migration
    [] s.pc = "bump1"  -> [s EXCEPT !.pc = "m12_ws", !.L.ver = "1"]
    [] s.pc = "m12_ws" ->                                   \* move a custom workspace to 'workspace', or fail
         IF L.wsKey \in {"", "workspace"} \/ (fx /\ SelfSpelled(L.wsKey)) THEN [s EXCEPT !.pc = "m12_name"]
         ELSE IF L.dirs.workspace # "absent" THEN [s EXCEPT !.pc = "unlock", !.res = "RuntimeError"]   \* incl. D1
         ELSE [s EXCEPT !.pc = "m12_name",
                        !.L.dirs = [L.dirs EXCEPT ![LocOf(L.wsKey)] = "absent", !.workspace = L.dirs[LocOf(L.wsKey)]]]
    [] s.pc = "m12_name" ->                                 \* project name -> project document unless default
         IF L.name = "None" THEN [s EXCEPT !.pc = "m12_rewrite"]
         ELSE [s EXCEPT !.pc = "m12_rewrite", !.L.pdocName = L.name]
    [] s.pc = "m12_rewrite" -> [s EXCEPT !.pc = "m12_cfgmove", !.L.name = "", !.L.wsKey = ""]  \* rewrite signac.rc
    [] s.pc = "m12_cfgmove" -> [s EXCEPT !.pc = "m12_files", !.L.where = "cfg"]               \* -> .signac/config
    [] s.pc = "m12_files"   -> [s EXCEPT !.pc = "bump2",
                                         !.L.hist = IF L.hist = "root" THEN "dot" ELSE L.hist,
                                         !.L.cache = IF L.cache = "root" THEN "dot" ELSE L.cache]
    [] s.pc = "bump2"  -> [s EXCEPT !.pc = "unlock", !.L.ver = "2"]
    [] s.pc = "unlock" -> [s EXCEPT !.pc = "done", !.L.lock = FALSE]                         \* the finally clause
    [] OTHER -> s
RECURSIVE RunFrom(_, _)
RunFrom(s, fx) == IF s.pc = "done" THEN s ELSE RunFrom(Step(s, fx), fx)
RunMig(l)  == RunFrom([pc |-> "start", L |-> l, res |-> "ok"], FixedD1)     \* what the code does
RunReq(l)  == RunFrom([pc |-> "start", L |-> l, res |-> "ok"], TRUE)        \* what the property requires

---------------------------------------------------------------------------
VARIABLES l0, op, s, round, mid
vars == <<l0, op, s, round, mid>>

Init == /\ l0 \in Layouts /\ op \in Ops
        /\ s = [pc |-> "start", L |-> l0, res |-> "ok"] /\ round = 1 /\ mid = l0

OpenOp == /\ op \in OpenOps /\ s.pc = "start"
          /\ s' = [s EXCEPT !.pc = "done", !.res = Gate(s.L), !.L = OpenEffect(s.L)]
          /\ UNCHANGED <<l0, op, round, mid>>
Frame == UNCHANGED <<l0, op, round, mid>>
Lock       == op = "migrate" /\ s.pc = "start" /\ s' = Step(s, FixedD1) /\ Frame
Collect    == op = "migrate" /\ s.pc = "locked" /\ s' = Step(s, FixedD1) /\ Frame
Null01     == op = "migrate" /\ s.pc = "m01" /\ s' = Step(s, FixedD1) /\ Frame
Bump1      == op = "migrate" /\ s.pc = "bump1" /\ s' = Step(s, FixedD1) /\ Frame
MoveWs     == op = "migrate" /\ s.pc = "m12_ws" /\ s' = Step(s, FixedD1) /\ Frame
NameToDoc  == op = "migrate" /\ s.pc = "m12_name" /\ s' = Step(s, FixedD1) /\ Frame
RewriteCfg == op = "migrate" /\ s.pc = "m12_rewrite" /\ s' = Step(s, FixedD1) /\ Frame
MoveCfg    == op = "migrate" /\ s.pc = "m12_cfgmove" /\ s' = Step(s, FixedD1) /\ Frame
MoveFiles  == op = "migrate" /\ s.pc = "m12_files" /\ s' = Step(s, FixedD1) /\ Frame
Bump2      == op = "migrate" /\ s.pc = "bump2" /\ s' = Step(s, FixedD1) /\ Frame
Unlock     == op = "migrate" /\ s.pc = "unlock" /\ s' = Step(s, FixedD1) /\ Frame
\* the history continues: resolve a collision by hand and migrate again / simply migrate again; then open
NeedsResolve == s.res = "RuntimeError" /\ Legacy(l0) /\ Colliding(s.L)
ResolveCollision == /\ op = "migrate" /\ s.pc = "done" /\ round = 1 /\ NeedsResolve
                    /\ s' = [pc |-> "start", L |-> Resolved(s.L), res |-> "ok"] /\ round' = 2 /\ mid' = Resolved(s.L)
                    /\ UNCHANGED <<l0, op>>
Again      == /\ op = "migrate" /\ s.pc = "done" /\ round = 1 /\ ~NeedsResolve
              /\ s' = [pc |-> "start", L |-> s.L, res |-> "ok"] /\ round' = 2 /\ mid' = s.L
              /\ UNCHANGED <<l0, op>>
OpenAfter  == /\ op = "migrate" /\ s.pc = "done" /\ round = 2
              /\ s' = [s EXCEPT !.pc = "opened", !.res = Gate(s.L), !.L = OpenEffect(s.L)] /\ round' = 3
              /\ UNCHANGED <<l0, op, mid>>
Next == OpenOp \/ Lock \/ Collect \/ Null01 \/ Bump1 \/ MoveWs \/ NameToDoc \/ RewriteCfg \/ MoveCfg
        \/ MoveFiles \/ Bump2 \/ Unlock \/ Again \/ ResolveCollision \/ OpenAfter

---------------------------------------------------------------------------
(* requirements *)
JobsSomewhere(l) == Cardinality({w \in WsLocs : l.dirs[w] = "jobs"}) = 1
TypeOK == /\ s.L.ver \in Vers /\ s.L.where \in {"rc", "cfg"} /\ s.L.njobs \in 0..5
          /\ \A w \in WsLocs : s.L.dirs[w] \in {"absent", "jobs", "stray", "empty"}
          /\ s.res \in {"ok", "IncompatibleSchemaVersion", "RuntimeError"}
\* in EVERY state, also between the sub-steps: the job directories exist in exactly one place, untouched
JobsNeverLost == JobsSomewhere(s.L) /\ s.L.njobs = l0.njobs /\ s.L.pdocUser = l0.pdocUser
\* Refuse: the gate raises iff the version is not the supported one; a refused project is not modified AT ALL
\* (no entry, file or directory - also no empty 'workspace' - appears); a successful open does OpenEffect only
Refuse == op \in OpenOps /\ s.pc = "done" =>
            /\ (s.res = "IncompatibleSchemaVersion") <=> ~UpToDate(l0)
            /\ s.res # "IncompatibleSchemaVersion" => s.res = "ok"
            /\ s.res = "IncompatibleSchemaVersion" => s.L = l0
            /\ s.res = "ok" => s.L = OpenEffect(l0)
CurL == s.L
RefuseFrame == [][(op \in OpenOps /\ ~UpToDate(l0)) => CurL' = CurL]_vars
\* MigratePreserves: a legacy project comes out up to date with the same jobs, name in the document, files carried
Done1 == op = "migrate" /\ s.pc = "done" /\ round = 1
MigratePreserves ==
  Done1 /\ Legacy(l0) /\ ~Colliding(l0) /\ ~SelfColliding(l0) =>
    /\ s.res = "ok" /\ UpToDate(s.L) /\ Gate(s.L) = "ok"
    /\ s.L.dirs.workspace = "jobs" /\ s.L.njobs = l0.njobs
    /\ s.L.pdocUser = l0.pdocUser
    /\ s.L.pdocName = (IF l0.name = "None" THEN l0.pdocName ELSE l0.name)
    /\ s.L.cache = (IF l0.cache = "root" THEN "dot" ELSE l0.cache)
    /\ s.L.hist = (IF l0.hist = "root" THEN "dot" ELSE l0.hist)
    /\ s.L.name = "" /\ s.L.wsKey = "" /\ s.L.cfgExtra = l0.cfgExtra /\ ~s.L.lock
\* the named failure: a colliding 'workspace'.  The refused migration leaves the WHOLE layout as it was - configuration
\* file location and entries, project document, cache, history, every directory - except for the version entry the
\* null step has already bumped (CAL_NullBump); and it is recoverable: after the stray directory is removed the next
\* migration succeeds with everything preserved, exactly as if there had never been a collision.
CollisionLeavesJobs ==
  Done1 /\ Legacy(l0) /\ Colliding(l0) =>
    /\ s.res = "RuntimeError" /\ s.L.dirs = l0.dirs
    /\ s.L = [l0 EXCEPT !.ver = IF Num(l0.ver) = 0 THEN "1" ELSE l0.ver]                    \* CAL_NullBump
CollisionRecoverable ==
  op = "migrate" /\ s.pc = "done" /\ round = 2 /\ Legacy(l0) /\ Colliding(l0) =>
    /\ s.res = "ok" /\ s.L = RunMig(Resolved(l0)).L /\ UpToDate(s.L) /\ s.L.dirs.workspace = "jobs"
    /\ s.L.njobs = l0.njobs /\ s.L.pdocUser = l0.pdocUser
    /\ s.L.pdocName = (IF l0.name = "None" THEN l0.pdocName ELSE l0.name)
    /\ s.L.cache = (IF l0.cache = "root" THEN "dot" ELSE l0.cache)
    /\ s.L.hist = (IF l0.hist = "root" THEN "dot" ELSE l0.hist)
\* newer versions and non-legacy files are refused by the migration as well, untouched
MigrateRefuses == Done1 /\ ~Legacy(l0) /\ ~UpToDate(l0) => s.res = "RuntimeError" /\ s.L = l0
UpToDateNoop   == Done1 /\ UpToDate(l0) => s.res = "ok" /\ s.L = l0
\* a second migration never changes anything; afterwards the project opens iff the first one succeeded
SecondNoop     == op = "migrate" /\ s.pc = "done" /\ round = 2 /\ ~(Legacy(l0) /\ Colliding(l0)) => s.L = mid
OpensAfterwards == s.pc = "opened" /\ (Legacy(l0) \/ UpToDate(l0)) /\ ~SelfColliding(l0) => s.res = "ok"
\* D1 as the code behaves: refused, and - like every refused migration - nothing but the null step's version bump
D1Frame == Done1 /\ Legacy(l0) /\ SelfColliding(l0) =>
             s.res = "RuntimeError" /\ s.L = [l0 EXCEPT !.ver = IF Num(l0.ver) = 0 THEN "1" ELSE l0.ver]
\* the requirement function agrees with the code's chain wherever no deviation is active
ReqAgrees == Done1 /\ ~SelfColliding(l0) => RunReq(l0) = s
LockHeld == (op = "migrate" /\ s.pc \notin {"start", "done", "opened"}) <=> s.L.lock
CurVer == Num(s.L.ver)
VersionMonotone == [][CurVer' >= CurVer]_vars
ChainIsFunction == Done1 => s = RunMig(l0)

---------------------------------------------------------------------------
(* The command line front end (signac/__main__.py): every command is its own process with cwd = the project directory
   (or a sub-directory of it).  Each command is a COMPOSITION of the operators above; st = exit status.
     signac job / find / init / ...   the gate: exit 1 and nothing touched unless the version is the supported one
     signac migrate -y [-r <project>] (cwd = the project, or any directory with the project named by -r)
                                      newer version: message, exit 0, nothing touched (CAL_CliNewerExit0);
                                      up to date: "Nothing to do", exit 0;  otherwise apply_migrations = RunMig,
                                      exit 1 iff it raised
     signac migrate  /  signac -y migrate
                                      without the sub-command's own -y the question is asked; it cannot be answered
                                      (the child's stdin is at end of file): exit 1, nothing touched.  The GLOBAL -y
                                      is overridden by the sub-command's default (argparse) - CAL_GlobalYesIgnored
     signac config --local show|verify|set   read / write .signac/config of the CURRENT directory only (no search):
                                      in a legacy layout there is none: show/verify print nothing (exit 0), set fails
                                      (exit 1, nothing written).  `set workspace_dir x` stores an entry nothing reads
                                      (CAL_WorkspaceDirIgnored: schema 2 always uses 'workspace'); `set schema_version v`
                                      changes what the gate sees; `show schema_version` prints the declared version,
                                      "1" when there is no entry (the configuration's default)                        *)
CliGate(l) == [st |-> IF UpToDate(l) THEN 0 ELSE 1, post |-> OpenEffect(l)]
CliMigrate(l, yes) ==
  IF Num(l.ver) > 2 THEN [st |-> 0, msg |-> "newer", post |-> l]
  ELSE IF UpToDate(l) THEN [st |-> 0, msg |-> "uptodate", post |-> l]
  ELSE IF ~yes THEN [st |-> 1, msg |-> "not-confirmed", post |-> l]
  ELSE LET a == RunMig(l) IN [st |-> IF a.res = "ok" THEN 0 ELSE 1, msg |-> a.res, post |-> a.L]
CliFind(l) == IF UpToDate(l) THEN [st |-> 0, n |-> IF l.dirs.workspace = "jobs" THEN l.njobs ELSE 0, post |-> OpenEffect(l)]
              ELSE [st |-> 1, n |-> 0, post |-> l]
CliConfigSet(l, key, val) ==
  IF l.where # "cfg" THEN [st |-> 1, post |-> l]
  ELSE [st |-> 0, post |-> IF key = "workspace_dir" THEN [l EXCEPT !.wsKey = val] ELSE [l EXCEPT !.ver = val]]
CliConfigShowVer(l) == IF l.where # "cfg" THEN "" ELSE IF l.ver = "absent" THEN "1" ELSE l.ver
ConfigSets == {<<"workspace_dir", "custom">>, <<"schema_version", "1">>, <<"schema_version", "2">>, <<"schema_version", "3">>}

(* what the user of the command line is promised (state predicates over the layout of the behaviour) *)
CliRefuse == ~UpToDate(l0) => CliGate(l0).st = 1 /\ CliGate(l0).post = l0 /\ CliFind(l0).st = 1 /\ CliFind(l0).post = l0
CliNotConfirmedNoChange == CliMigrate(l0, FALSE).post = l0
CliMigratePreserves ==
  Legacy(l0) /\ ~Colliding(l0) /\ ~SelfColliding(l0) =>
    LET m == CliMigrate(l0, TRUE) IN
    /\ m.st = 0 /\ m.post = RunReq(l0).L /\ UpToDate(m.post)
    /\ CliMigrate(m.post, TRUE) = [st |-> 0, msg |-> "uptodate", post |-> m.post]         \* the second run is a no-op
    /\ CliFind(m.post).st = 0 /\ CliFind(m.post).n = l0.njobs
CliCollisionRefused ==
  Legacy(l0) /\ Colliding(l0) => CliMigrate(l0, TRUE).st = 1 /\ CliMigrate(l0, TRUE).post.dirs = l0.dirs
\* a configuration entry written through the command line never makes jobs unreachable SILENTLY: afterwards the
\* project lists the same jobs, or every command refuses it loudly (exit 1)
CliConfigNeverHides ==
  \A kv \in ConfigSets : LET l2 == CliConfigSet(l0, kv[1], kv[2]).post IN
                          CliFind(l2).st = 1 \/ CliFind(l0).st = 1 \/ CliFind(l2).n = CliFind(l0).n

CliCaseOf(l) ==
  LET m   == CliMigrate(CliGate(l).post, TRUE)          \* the history: ... the gate commands first, then migrate -y
      fix == m.st = 1 /\ Legacy(l) /\ Colliding(m.post)
      m2  == CliMigrate(IF fix THEN Resolved(m.post) ELSE m.post, TRUE)
      SetRec(kv) == LET c == CliConfigSet(l, kv[1], kv[2]) IN
                    [key |-> kv[1], val |-> kv[2], st |-> c.st, post |-> c.post, find |-> CliFind(c.post)]
  IN [l0 |-> l, notconfirmed |-> CliMigrate(l, FALSE), gate |-> CliGate(l), mig |-> m, resolved |-> fix, mig2 |-> m2,
      find |-> CliFind(m2.post), findbefore |-> CliFind(l), showver |-> CliConfigShowVer(l),
      sets |-> [i \in 1..Len(SetToSeq(ConfigSets)) |-> SetRec(SetToSeq(ConfigSets)[i])]]

---------------------------------------------------------------------------
(* export: (layout, operation) -> expected outcome and expected layouts *)
CaseOf(l, o) ==
  IF o \in OpenOps
  THEN [l0 |-> l, op |-> o, res |-> Gate(l), post |-> OpenEffect(l), resolved |-> FALSE, res2 |-> "", post2 |-> l,
        open |-> "", openjobs |-> 0, post3 |-> l, reqres |-> Gate(l), reqpost |-> OpenEffect(l)]
  ELSE LET a == RunMig(l)
           fix == a.res = "RuntimeError" /\ Legacy(l) /\ Colliding(a.L)
           b == RunMig(IF fix THEN Resolved(a.L) ELSE a.L)
       IN [l0 |-> l, op |-> o, res |-> a.res, post |-> a.L, resolved |-> fix, res2 |-> b.res, post2 |-> b.L,
           open |-> Gate(b.L), openjobs |-> IF b.L.dirs.workspace = "jobs" THEN b.L.njobs ELSE 0, post3 |-> OpenEffect(b.L),
           reqres |-> RunReq(l).res, reqpost |-> RunReq(l).L]
Export == /\ TLCGet("level") >= 0
          /\ IF MODE = "file"
             THEN /\ ndJsonSerialize(IOEnv.CASES_OUT, [i \in 1..Len(FileIn) |-> CaseOf(FileIn[i].l0, FileIn[i].op)])
                  /\ ndJsonSerialize(IOEnv.CLI_OUT, [i \in 1..Len(FileIn) |-> CliCaseOf(FileIn[i].l0)])
             ELSE LET ls == SetToSeq(Layouts)
                      os == SetToSeq(Ops)
                  IN /\ ndJsonSerialize(IOEnv.CASES_OUT,
                          [k \in 1..(Len(ls) * Len(os)) |-> CaseOf(ls[((k - 1) \div Len(os)) + 1], os[((k - 1) % Len(os)) + 1])])
                     /\ ndJsonSerialize(IOEnv.CLI_OUT, [k \in 1..Len(ls) |-> CliCaseOf(ls[k])])
=============================================================================

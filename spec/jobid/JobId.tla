------------------------------ MODULE JobId ------------------------------
(* C01: the job id is md5(Canon(sp)) where Canon is the canonical JSON text:
   json.dumps(sp, sort_keys=True) with default separators and ensure_ascii.
   Canon is written out here character by character; MD5 is trusted base (hashlib in the harness).
   Generator spec: every initial state is one case; cases and their canonical text are exported
   as NDJSON by the POSTCONDITION and replayed into the real library.
   Two sources of cases:  MODE = "universe" (TLC enumerates the bounded universe below)
                          MODE = "file"     (values recorded from the implementation's side) *)
EXTENDS JsonValue, TLC, Json, IOUtils, Randomization

CONSTANTS MODE,        \* "universe" | "file"
          WIDTH,       \* max entries of an inner list / mapping
          TOPWIDTH,    \* max keys of the state point itself
          NSAMPLE      \* how many random wide/deep state points to add to the exhaustive ones

---------------------------------------------------------------------------
(* canonical text *)
Txt(s) == [i \in 1..Len(s) |-> s[i]]           \* identity on code point tuples
HexD(d) == IF d < 10 THEN 48 + d ELSE 87 + d   \* lower-case hex digit
Hex4(c) == <<HexD(c \div 4096), HexD((c \div 256) % 16), HexD((c \div 16) % 16), HexD(c % 16)>>
U4(c)   == <<92, 117>> \o Hex4(c)
EscChar(c) ==
  CASE c = 34 -> <<92, 34>>   [] c = 92 -> <<92, 92>>
    [] c = 10 -> <<92, 110>>  [] c = 13 -> <<92, 114>>  [] c = 9 -> <<92, 116>>
    [] c = 8  -> <<92, 98>>   [] c = 12 -> <<92, 102>>
    [] c < 32 \/ (c > 126 /\ c < 65536) -> U4(c)
    [] c >= 65536 -> LET d == c - 65536 IN U4(55296 + (d \div 1024)) \o U4(56320 + (d % 1024))
    [] OTHER -> <<c>>
Quoted(cps) == <<34>> \o FlattenSeq([i \in 1..Len(cps) |-> EscChar(cps[i])]) \o <<34>>

RECURSIVE Digits(_)
Digits(k) == IF k < 10 THEN <<48 + k>> ELSE Digits(k \div 10) \o <<48 + (k % 10)>>
IntText(k) == IF k < 0 THEN <<45>> \o Digits(0 - k) ELSE Digits(k)

RECURSIVE Canon(_)
Canon(v) ==
  CASE v.t = "null" -> <<110, 117, 108, 108>>
    [] v.t = "bool" -> IF v.b THEN <<116, 114, 117, 101>> ELSE <<102, 97, 108, 115, 101>>
    [] v.t = "int"  -> IntText(v.n)
    [] v.t = "big"  -> v.a
    [] v.t = "flt"  -> v.a
    [] v.t = "str"  -> Quoted(v.a)
    [] v.t = "list" -> <<91>> \o JoinSeqs([i \in 1..Len(v.l) |-> Canon(v.l[i])], <<44, 32>>) \o <<93>>
    [] v.t = "map"  -> LET ks == SortedKeys(v.m) IN
                       <<123>> \o JoinSeqs([i \in 1..Len(ks) |-> Quoted(ks[i]) \o <<58, 32>> \o Canon(v.m[ks[i]])],
                                           <<44, 32>>) \o <<125>>

---------------------------------------------------------------------------
(* bounded universe *)
Keys == {<<97>>, <<98>>, <<97, 97>>, <<228>>, <<181>>}             \* a b aa ä µ (U+00B5 is not NFKC-stable)
Scalars == {JNull, JBool(TRUE), JBool(FALSE), JInt(0), JInt(1), JInt(0 - 1), JInt(10),
            JFlt(<<49, 46, 48>>), JFlt(<<48, 46, 53>>),            \* 1.0  0.5
            JStr(<<>>), JStr(<<49>>), JStr(<<97>>), JStr(<<233>>), \* "" "1" "a" "é"
            JStr(<<34>>), JStr(<<10>>), JStr(<<128512>>),          \* "\""  "\n"  emoji (non-BMP)
            JStr(<<127>>), JStr(<<31, 128>>), JStr(<<65535, 65536>>)} \* DEL; last C0 + first C1; last BMP + first non-BMP
ListsOver(S, w) == UNION {[1..k -> S] : k \in 0..w}
MapsOver(S, w)  == UNION {[K -> S] : K \in {K \in SUBSET Keys : Cardinality(K) <= w}}
U1 == Scalars \cup {JList(s) : s \in ListsOver(Scalars, WIDTH)} \cup {JMap(f) : f \in MapsOver(Scalars, WIDTH)}
\* depth-2 containers are sampled (the full set has ~10^10 members)
U2 == U1 \cup {JList(s) : s \in RandomSubset(NSAMPLE, [1..WIDTH -> U1])}
         \cup {JMap(f) : f \in RandomSubset(NSAMPLE, [{<<97>>, <<228>>} -> U1])}
SmallSP == {JMap(f) : f \in MapsOver(U1, 1)}                       \* exhaustive: every one-key state point over U1
WideSP  == {JMap(f) : f \in UNION {RandomSubset(NSAMPLE, [K -> U2]) :
                                   K \in {K \in SUBSET Keys : Cardinality(K) \in 2..TOPWIDTH}}}
FileIn  == IF MODE = "file" THEN ndJsonDeserialize(IOEnv.CASES_FILE) ELSE <<>>
Cases   == IF MODE = "file" THEN {FromWire(FileIn[i]) : i \in 1..Len(FileIn)} ELSE SmallSP \cup WideSP

---------------------------------------------------------------------------
VARIABLE v
Init == v \in Cases
Next == UNCHANGED v

(* requirements checked on every case *)
AsciiOnly  == \A i \in 1..Len(Canon(v)) : Canon(v)[i] \in 32..126
\* swapping the text for a permuted-key spelling is impossible by construction (a map is a function);
\* what can be stated is that the text lists keys in strictly increasing code-point order at every level:
RECURSIVE KeysSortedIn(_)
KeysSortedIn(x) ==
  CASE x.t = "list" -> \A i \in 1..Len(x.l) : KeysSortedIn(x.l[i])
    [] x.t = "map"  -> LET ks == SortedKeys(x.m) IN
                       /\ \A i \in 1..(Len(ks) - 1) : LexLess(ks[i], ks[i + 1])
                       /\ \A k \in DOMAIN x.m : KeysSortedIn(x.m[k])
    [] OTHER -> TRUE
KeysSorted == KeysSortedIn(v)
\* different JSON values never share a canonical text (1 / 1.0 / true / "1", list order, extra key ...)
Injective == Cardinality({Canon(c) : c \in Cases}) = Cardinality(Cases)

Export == /\ TLCGet("level") >= 0
          /\ Injective
          /\ IF MODE = "file"
             THEN ndJsonSerialize(IOEnv.CASES_OUT, [i \in 1..Len(FileIn) |-> [c |-> Canon(FromWire(FileIn[i]))]])
             ELSE LET cs == SetToSeq(Cases) IN
                  ndJsonSerialize(IOEnv.CASES_OUT, [i \in 1..Len(cs) |-> [v |-> ToWire(cs[i]), c |-> Canon(cs[i])]])
=============================================================================

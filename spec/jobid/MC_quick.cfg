CONSTANTS
  MODE = "universe"
  WIDTH = 1
  TOPWIDTH = 3
  NSAMPLE = 150
INIT Init
NEXT Next
INVARIANT AsciiOnly
INVARIANT KeysSorted
POSTCONDITION Export
CHECK_DEADLOCK FALSE

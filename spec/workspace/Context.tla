----------------------------- MODULE Context -----------------------------
(* Job.open() / Job.close() - the job as a context manager (`with job:`) - on top of Workspace.tla.

   open():  push os.getcwd() on the handle's stack; init(validate_statepoint=False); os.chdir(job.path)
   close(): pop the stack and chdir there; an empty stack is silently ignored.

   The process has ONE current directory.  It is an inode, not a name: when the directory is renamed (a re-key,
   a move to another project) the process is still inside it, under the new name; when it is removed the
   process is nowhere ("gone").  The stacks hold NAMES (absolute paths as they were when pushed).

   Every Workspace action stays as it is; this module adds what it means for `cwd` and the stacks:
   Job._initialize_lazy_properties() - run for every handle of the group on a successful re-key and (through the
   fresh handle whose fields it takes over) on a move - also empties the stack.  DEVIATION D6: leaving the
   context after such an edit therefore does NOT return to the previous directory (requirement Balanced below).

   Handles are kept alone in their group here (no "copy": shallow copies share one stack object).            *)
EXTENDS Workspace

VARIABLES cwd,      \* Home | Gone | At(project, directory name)
          stk,      \* [Handles -> Seq(names)]
          depth     \* ghost: [Handles -> Nat]  opens minus closes (what the user believes), never reset
cvars == <<vars, cwd, stk, depth>>

Home == [k |-> "home", p |-> AnyP, n |-> AnySp]
Gone == [k |-> "gone", p |-> AnyP, n |-> AnySp]
At(p, n) == [k |-> "dir", p |-> p, n |-> n]
IsDir(c) == c.k = "dir"

(* a directory was renamed by the step iff it disappeared under its name and the step was a re-key / move of a handle on it *)
MovedHandle == IF last'.op \in RekeyOps \cup {"move"} /\ last'.res = "ok" THEN {last'.args[1]} ELSE {}
Renamed(p, n) == \E x \in MovedHandle : h[x].proj = p /\ h[x].id = n /\ n \in DOMAIN ws[p] /\ n \notin DOMAIN ws'[p]
                                        /\ h'[x].id \in DOMAIN ws'[h'[x].proj] /\ (h'[x].id # n \/ h'[x].proj # p)
RenamedTo(p, n) == LET x == CHOOSE x \in MovedHandle : h[x].proj = p /\ h[x].id = n IN At(h'[x].proj, h'[x].id)

(* where the process is after a Workspace step that may have renamed or removed its directory *)
Follow(c) ==
  IF ~IsDir(c) THEN c
  ELSE LET p == c.p  n == c.n IN
       IF Renamed(p, n) THEN RenamedTo(p, n)
       ELSE IF n \in DOMAIN ws'[p] THEN c
       ELSE Gone

(* stacks are emptied together with the other lazily initialised fields *)
Reinitialised(x) == /\ x \in MovedHandle
                    /\ (h'[x].id # h[x].id \/ h'[x].proj # h[x].proj)
StkAfter == [x \in Handles |-> IF ~h'[x].live THEN <<>> ELSE IF Reinitialised(x) THEN <<>> ELSE stk[x]]

WsStep == /\ Next
          /\ cwd' = Follow(cwd)
          /\ stk' = StkAfter
          /\ depth' = [x \in Handles |-> IF h'[x].live THEN depth[x] ELSE 0]

(* init(validate_statepoint=False) *)
InitNV(S, x) ==
  LET j == S.h[x]  rec == RecS(S, j.proj, j.id) IN
  IF j.dirKnown THEN Out(S, "ok")
  ELSE IF rec.ex THEN Out([S EXCEPT !.h[x].dirKnown = TRUE], "ok")
  ELSE InitR(S, x, FALSE)

Enter(x) ==
  /\ Live(x)
  /\ IF cwd = Gone
     THEN \* os.getcwd() fails first: nothing is pushed, nothing initialised, the `with` body does not run
          /\ Obs("enter", <<x>>, "FileNotFoundError")
          /\ UNCHANGED <<ws, h, mem, locks, tainted, cwd, stk, depth>>
     ELSE /\ LET r == InitNV(St, x)  j == r.s.h[x]  there == j.id \in DOMAIN r.s.ws[j.proj] IN
             /\ Apply(IF r.res # "ok" THEN r ELSE IF there THEN r ELSE Out(r.s, "FileNotFoundError"), "enter", <<x>>)
             /\ cwd' = IF r.res = "ok" /\ there THEN At(j.proj, j.id) ELSE cwd
          /\ stk' = [stk EXCEPT ![x] = Append(@, cwd)]
          /\ depth' = [depth EXCEPT ![x] = @ + 1]
  /\ UNCHANGED <<cacheEx, cacheF, memRead, strays, glast>>

Exit(x) ==
  /\ Live(x)
  /\ IF stk[x] = <<>>
     THEN cwd' = cwd /\ stk' = stk /\ Obs("exit", <<x>>, "ok")
     ELSE LET t == stk[x][Len(stk[x])]
              ok == ~IsDir(t) \/ t.n \in DOMAIN ws[t.p] IN
          /\ stk' = [stk EXCEPT ![x] = SubSeq(@, 1, Len(@) - 1)]
          /\ cwd' = IF ok /\ t # Gone THEN t ELSE cwd
          /\ Obs("exit", <<x>>, IF ok /\ t # Gone THEN "ok" ELSE "FileNotFoundError")
  /\ depth' = [depth EXCEPT ![x] = IF @ > 0 THEN @ - 1 ELSE 0]
  /\ UNCHANGED <<ws, cacheEx, cacheF, mem, memRead, strays, h, glast, locks, tainted>>

CInit == Init /\ cwd = Home /\ stk = [x \in Handles |-> <<>>] /\ depth = [x \in Handles |-> 0]
CNext == \/ WsStep
         \/ On("enter") /\ \E x \in Handles : Enter(x)
         \/ On("exit")  /\ \E x \in Handles : Exit(x)
CSpec == CInit /\ [][CNext]_cvars
CDepth == TLCGet("level") <= MaxDepth /\ \A x \in Handles : depth[x] <= 2

---------------------------------------------------------------------------
(* what `with job:` promises: leaving the context returns to where one was.  Once every context has been left and no
   directory the user stood in was removed or lost behind the user's back, the process is back at its starting point. *)
Balanced == (\A x \in Handles : depth[x] = 0) => cwd \in {Home, Gone}
(* ... known to fail after a re-key or move inside the context (D6): TLC's counterexample is replayed on the real code and
   reported as an observation - this promise is documented behaviour of Job.open(), not one of the listed properties *)
(* entering never changes anything on disk beyond initialising the job *)
EnterOnlyInits == [][last'.op = "enter" => \A p \in Projects : \A i \in DOMAIN ws[p] : i \in DOMAIN ws'[p] /\ ws'[p][i] = ws[p][i]]_cvars
ExitWritesNothing == [][last'.op = "exit" => ws' = ws]_cvars
=============================================================================

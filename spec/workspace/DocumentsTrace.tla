--------------------------- MODULE DocumentsTrace ---------------------------
(* C05, code -> spec: batch validation of recorded real executions against Documents.tla.

   One TLC run (-workers 1) validates thousands of recorded executions.  A trace is a sequence of Hoare
   triples  {files before} op(handle, args) {files after, result}  recorded by harness/drivers/c05.py from
   real signac on a real temporary project (values are arbitrary JSON in the wire format of
   harness/jsonenc.py; mappings keep their key order).  The specification is driven along the recorded
   operations (its own hidden state: in-memory copies, buffer entries, registration order, capacity stack
   evolves by the spec's action relation); after every step TLC decides
     - whether the recorded result and the recorded files are exactly what the action relation yields
       (first mismatch -> register N + tid, with the spec's view of that step for classification), and
     - whether the REQUIREMENTS of the property hold in the state reached (first failure -> register
       2N + tid, with the set of deviations that fired), and
     - whether the property's post-conditions hold on the RECORDED observations themselves (files outside blocks
       and read results against the ghost plain dict, unexpected exception classes; first failure -> 3N + tid).
   The POSTCONDITION exports one verdict record per trace as NDJSON. *)
EXTENDS Documents, Json, IOUtils, TLCExt

Traces == ndJsonDeserialize(IOEnv.TRACE_FILE)
N == Len(Traces)
None == [l |-> 0]
ASSUME \A i \in 1..(4 * N) : TLCSet(i, None)

VARIABLES tid, l
Ev == Traces[tid].ev
E  == Ev[l]
H  == <<E.f, E.i>>

Act ==
  CASE E.op = "set"        -> SetItem(H, E.k, E.v)
    [] E.op = "setbad"     -> SetBadKey(H, E.k, E.v)
    [] E.op = "del"        -> DelItem(H, E.k)
    [] E.op = "update"     -> Update(H, E.v)
    [] E.op = "setdefault" -> SetDefault(H, E.k, E.v)
    [] E.op = "pop"        -> Pop(H, E.k, E.form, E.v)
    [] E.op = "clear"      -> Clear(H)
    [] E.op = "reset"      -> Reset(H, E.v)
    [] E.op = "nset"       -> NestedSet(H, E.k, E.k2, E.form, E.v)
    [] E.op = "append"     -> ListAppend(H, E.k, E.v)
    [] E.op = "lset"       -> ListSet(H, E.k, E.ix, E.v)
    [] E.op = "read"       -> Read(H)
    [] E.op = "get"        -> GetItem(H, E.k, E.form)
    [] E.op = "enter"      -> EnterBuffered(IF E.form = "cap" THEN [has |-> TRUE, c |-> E.ix] ELSE [has |-> FALSE, c |-> 0])
    [] E.op = "exit"       -> ExitBuffered
    [] E.op = "remove"     -> RemoveJob(H)
    [] E.op = "rekey"      -> RekeyJob(H)
    [] E.op = "reinit"     -> RemoveReinit(H)
    [] E.op = "jclear"     -> ClearJob(H)
    [] E.op = "jreset"     -> ResetJob(H)

TrInit == Init /\ tid \in 1..N /\ l = 1
TrNext == l <= Len(Ev) /\ Act /\ l' = l + 1 /\ UNCHANGED <<tid, steps>>

(* evaluated in every state reached: event Ev[l - 1] has just been applied *)
Done   == Ev[l - 1]
PostOk == \A j \in 1..Len(Done.post) : LET r == Done.post[j] IN
             disk[r.f].ex = r.ex /\ (r.ex => disk[r.f].v = r.v)
PostJsonOk == \A j \in 1..Len(Done.post) : LET r == Done.post[j] IN       \* the same, ignoring key order
             disk[r.f].ex = r.ex /\ (r.ex => JEq(disk[r.f].v, r.v))
ResOk  == last.res = Done.res
ResJsonOk == last.res.exc = Done.res.exc /\ JEq(last.res.v, Done.res.v)
(* the property's post-conditions evaluated by TLC on the RECORDED real observations against the ghost plain dict
   (ideal and depth depend on the operations only, so they stay valid after a step the specification cannot explain) *)
KnownExc == {"KeyError", "AttributeError", "TypeError", "IndexError", "KeyTypeError", "InvalidKeyError"}
RealDoc(r) == IF r.ex THEN r.v ELSE EmptyDoc
Explained == TLCGet(N + tid).l = 0
RealBad ==
     (IF Done.res.exc # "" /\ last.res.exc = "" /\ Done.res.exc \notin KnownExc THEN <<"raises">> ELSE <<>>)
  \o (IF depth = 0 /\ \E j \in 1..Len(Done.post) : ~JEq(RealDoc(Done.post[j]), ideal[Done.post[j].f]) THEN <<"file!=dict">> ELSE <<>>)
  \o (IF depth = 0 /\ last.op = "read" /\ Done.res.exc = "" /\ ~JEq(Done.res.v, ideal[last.h[1]]) THEN <<"read!=dict">> ELSE <<>>)
  \o (IF depth > 0 /\ last.op = "read" /\ Done.res.exc = "" /\ Explained /\ writers[last.h[1]] = {last.h}
         /\ ~JEq(Done.res.v, ideal[last.h[1]]) THEN <<"read-own-writes">> ELSE <<>>)
Failing == (IF Faithful THEN <<>> ELSE <<"Faithful">>) \o (IF OtherHandleSees THEN <<>> ELSE <<"OtherHandleSees">>)
           \o (IF ReadOwnWrites THEN <<>> ELSE <<"ReadOwnWrites">>) \o (IF ResultFaithful THEN <<>> ELSE <<"ResultFaithful">>)
View(fs) == [j \in 1..Len(fs) |-> [f |-> fs[j], ex |-> disk[fs[j]].ex, v |-> disk[fs[j]].v, ideal |-> ideal[fs[j]]]]
Track ==
  \/ l = 1
  \/ /\ TLCSet(tid, [l |-> l - 1])
     /\ (TLCGet(3 * N + tid).l = 0 /\ RealBad # <<>>)
          => TLCSet(3 * N + tid, [l |-> l - 1, which |-> RealBad, conform |-> (Explained /\ PostJsonOk /\ ResJsonOk), exc |-> Done.res.exc,
                                  files |-> View(FileSeq), depth |-> depth, dev |-> SetToSeq(dev \cup HypoDev)])
     /\ (TLCGet(N + tid).l = 0 /\ ~(PostOk /\ ResOk))
          => TLCSet(N + tid, [l |-> l - 1, resok |-> ResOk, postok |-> PostOk, resjson |-> ResJsonOk, postjson |-> PostJsonOk,
                              res |-> last.res, files |-> View(FileSeq), depth |-> depth,
                              own |-> (depth > 0 /\ last.op = "read" /\ writers[last.h[1]] = {last.h}), dev |-> SetToSeq(dev \cup HypoDev)])
     /\ (TLCGet(2 * N + tid).l = 0 /\ Failing # <<>>)
          => TLCSet(2 * N + tid, [l |-> l - 1, which |-> Failing, files |-> View(FileSeq), depth |-> depth, dev |-> SetToSeq(dev \cup HypoDev)])

Post == /\ TLCGet("level") >= 0
        /\ ndJsonSerialize(IOEnv.TRACE_OUT,
             [i \in 1..N |-> [id |-> Traces[i].id, len |-> Len(Traces[i].ev), done |-> TLCGet(i).l,
                              mis |-> TLCGet(N + i), req |-> TLCGet(2 * N + i), bad |-> TLCGet(3 * N + i)]])
=============================================================================

------------------------------ MODULE Prefix ------------------------------
(* C02: resolution of a job id or id prefix by project.open_job(id=...), on a cache miss.
   Generator spec: the ids of the workspace and the queries come from the harness (real 32-hex ids chosen
   so that prefixes collide at every short length); TLC evaluates Resolve for every query, checks the
   requirements and exports the expected outcome. Hex digits are integers 0..15.                      *)
EXTENDS Naturals, Sequences, FiniteSets, TLC, Json, IOUtils
In      == ndJsonDeserialize(IOEnv.PREFIX_IN)          \* record 1: [ids |-> <<...>>]; records 2..: [q |-> <<digits>>]
Ids     == {In[1].ids[k] : k \in 1..Len(In[1].ids)}
NQ      == Len(In) - 1
Query(k) == In[k + 1].q
IsPre(s, t) == Len(s) <= Len(t) /\ SubSeq(t, 1, Len(s)) = s
NoId == <<>>
Resolve(s) ==
  LET M == {i \in Ids : IsPre(s, i)} IN
  IF Len(s) >= 32 THEN (IF s \in Ids THEN [res |-> "ok", id |-> s] ELSE [res |-> "KeyError", id |-> NoId])
  ELSE IF Cardinality(M) = 1 THEN [res |-> "ok", id |-> CHOOSE i \in M : TRUE]
  ELSE IF Cardinality(M) > 1 THEN [res |-> "LookupError", id |-> NoId]     \* ambiguous
  ELSE [res |-> "KeyError", id |-> NoId]                                    \* unknown
VARIABLE k
Init == k \in 1..NQ
Next == UNCHANGED k
Sound       == Resolve(Query(k)).res = "ok" => (Resolve(Query(k)).id \in Ids /\ IsPre(Query(k), Resolve(Query(k)).id))
Unambiguous == Resolve(Query(k)).res = "ok" => \A i \in Ids : IsPre(Query(k), i) => i = Resolve(Query(k)).id
Complete    == (\E i \in Ids : IsPre(Query(k), i)) => Resolve(Query(k)).res \in {"ok", "LookupError"}
Export == TLCGet("level") >= 0 /\ ndJsonSerialize(IOEnv.PREFIX_OUT, [j \in 1..NQ |-> [q |-> Query(j), r |-> Resolve(Query(j))]])
=============================================================================

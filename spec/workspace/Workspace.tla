---------------------------- MODULE Workspace ----------------------------
(* The signac workspace as a state machine: what is on disk (job directories with state point file,
   document, data files; the persistent state point cache), what one session holds in memory
   (Project._sp_cache), and the job handles of that session with their lazily initialised fields.
   One action per public operation, failing branches included, written like the code (signac/job.py,
   signac/project.py) - including its remaining defects, marked DEVIATION - so that it can be bound:
   every edge of the bounded state graph is replayed into the real library (harness/wsengine.py) and
   real executions are validated back.  The REQUIREMENTS of properties C02 C03 C04 C08 C09 are the
   invariants / action properties at the end.

   Ids: Id == identity on state points (the harness maps a state point to its real 32-hex id with its
   own canonical JSON + md5; spec/jobid covers that map).  A directory is named by a state point.     *)
EXTENDS Naturals, FiniteSets, Sequences, TLC

CONSTANTS Projects, Keys, Vals, Handles, DocVals, FileNames, FVals,
          Ops,          \* the operation alphabet of this run (subset of the op names used in Next)
          MaxDepth,
          InitJobs,     \* jobs (of project "P") that exist, valid, in the initial state
          InitCache,    \* subset of {TRUE, FALSE}: initial states with / without an exact persistent cache file
          IdOrder,      \* all state points as a sequence in the order of their real ids (= listing order under the harness)
          FixedD3,      \* BOOLEAN, probed on the tree under test: DEVIATION D3 (below) has been repaired
          FixedD4,      \* BOOLEAN, probed: init() through a handle that cannot learn its state point creates nothing (D4 repaired)
          FixedD7       \* BOOLEAN, probed: a refused re-key rolls the memory back even when the restored file is unreadable (D7 repaired)

Absent  == "-"
SP      == [Keys -> Vals \cup {Absent}]
AnySp   == CHOOSE s \in SP : TRUE
NoDoc   == "nodoc"
EmptyDoc == "d0"                    \* the document file exists and holds {}
NoFiles == <<>>
(* a job directory. spk: "ok" (file parses to spv - which may differ from the directory name) | "missing" | "garbage" *)
NoJob == [ex |-> FALSE, spk |-> "missing", spv |-> AnySp, doc |-> NoDoc, files |-> NoFiles]
Dir(k, v, d, f) == [ex |-> TRUE, spk |-> k, spv |-> v, doc |-> d, files |-> f]
NoSp      == [known |-> FALSE, v |-> AnySp]
Known(s)  == [known |-> TRUE, v |-> s]
AnyP == CHOOSE p \in Projects : TRUE
AnyH == CHOOSE x \in Handles : TRUE
DeadHandle == [live |-> FALSE, proj |-> AnyP, id |-> AnySp, spMem |-> NoSp, spInit |-> FALSE,
               dirKnown |-> FALSE, docOpen |-> FALSE, grp |-> AnyH, root |-> AnyH]

VARIABLES ws,        \* [Projects -> (sparse) directory name -> Dir]
          cacheEx,   \* [Projects -> BOOLEAN]              persistent cache file exists
          cacheF,    \* [Projects -> (sparse) id -> sp]    its content
          mem,       \* [Projects -> (sparse) id -> sp]    Project._sp_cache of the session
          memRead,   \* [Projects -> BOOLEAN]              Project._sp_cache_read
          strays,    \* [Projects -> SUBSET stray kinds]   non-job entries of the workspace directory
          h,         \* [Handles -> handle]
          glast,     \* [Handles -> Handles]  last member appended to the group founded by that handle
          locks,     \* set of <<project, id>>: entries of _StatePointDict._locks (DEVIATION D3 lives here)
          tainted,   \* ghost: which known deviations have fired in this behaviour (excuses for the ...X requirements)
          last       \* observation: [op, args, res, val]
vars == <<ws, cacheEx, cacheF, mem, memRead, strays, h, glast, locks, tainted, last>>

---------------------------------------------------------------------------
PutF(w, i, r) == [j \in DOMAIN w \cup {i} |-> IF j = i THEN r ELSE w[j]]
DelF(w, i)    == [j \in DOMAIN w \ {i} |-> w[j]]
MergeF(a, b)  == [j \in DOMAIN a \cup DOMAIN b |-> IF j \in DOMAIN b THEN b[j] ELSE a[j]]   \* dict.update
RestrictF(a, S) == [j \in DOMAIN a \cap S |-> a[j]]

(* S: the part of the state the job-level operations act on, as a value, so that operations compose
   (reset = clear ; init,  document access = init ; write, ...) *)
St == [ws |-> ws, h |-> h, mem |-> mem, locks |-> locks, taint |-> tainted]
Out(S, res)       == [s |-> S, res |-> res, val |-> {}]
OutV(S, res, val) == [s |-> S, res |-> res, val |-> val]

RecS(S, p, i)   == IF i \in DOMAIN S.ws[p] THEN S.ws[p][i] ELSE NoJob
ValidS(S, p, i) == RecS(S, p, i).ex /\ RecS(S, p, i).spk = "ok" /\ RecS(S, p, i).spv = i
Rec(p, i)   == RecS(St, p, i)
Dirs(p)     == DOMAIN ws[p]
Valid(p, i) == ValidS(St, p, i)
ValidIn(W, p, i) == i \in DOMAIN W[p] /\ W[p][i].spk = "ok" /\ W[p][i].spv = i
HasFile(r)  == r.ex /\ r.spk # "missing"
EmptyDir(r) == r.ex /\ r.spk = "missing" /\ r.doc = NoDoc /\ r.files = NoFiles
Live(x)     == h[x].live
SameGroup(H, y, x) == H[y].live /\ H[y].grp = H[x].grp
SetGroup(H, x, f(_)) == [y \in Handles |-> IF SameGroup(H, y, x) THEN f(H[y]) ELSE H[y]]
Obs(op, args, res)       == last' = [op |-> op, args |-> args, res |-> res, val |-> {}]
ObsV(op, args, res, val) == last' = [op |-> op, args |-> args, res |-> res, val |-> val]
CacheAfterRead(p) == IF memRead[p] \/ ~cacheEx[p] THEN mem[p] ELSE MergeF(mem[p], cacheF[p])
CacheAfterReadS(S, p) == IF memRead[p] \/ ~cacheEx[p] THEN S.mem[p] ELSE MergeF(S.mem[p], cacheF[p])
NewHandle(x, p, i, s, dk) == [live |-> TRUE, proj |-> p, id |-> i, spMem |-> s, spInit |-> FALSE,
                              dirKnown |-> dk, docOpen |-> FALSE, grp |-> x, root |-> x]
Apply(r, op, args) == /\ ws' = r.s.ws /\ h' = r.s.h /\ mem' = r.s.mem /\ locks' = r.s.locks /\ tainted' = r.s.taint
                      /\ ObsV(op, args, r.res, r.val)

PosOf(i) == CHOOSE k \in 1..Len(IdOrder) : IdOrder[k] = i
InitDir(i) == Dir("ok", i, IF PosOf(i) % 2 = 1 THEN "d1" ELSE "d2",
                  IF PosOf(i) % 2 = 1 THEN [f \in {CHOOSE f \in FileNames : TRUE} |-> CHOOSE c \in FVals : TRUE] ELSE NoFiles)
Init == /\ ws = [p \in Projects |-> IF p = "P" THEN [i \in InitJobs |-> InitDir(i)] ELSE <<>>]
        /\ \E c \in InitCache : /\ cacheEx = [p \in Projects |-> c /\ p = "P"]
                                /\ cacheF = [p \in Projects |-> IF c /\ p = "P" THEN [i \in InitJobs |-> i] ELSE <<>>]
        /\ mem = [p \in Projects |-> <<>>] /\ memRead = [p \in Projects |-> FALSE]
        /\ strays = [p \in Projects |-> {}]
        /\ h = [x \in Handles |-> DeadHandle] /\ glast = [x \in Handles |-> x] /\ locks = {} /\ tainted = {}
        /\ last = [op |-> "start", args |-> <<>>, res |-> "ok", val |-> {}]

---------------------------------------------------------------------------
(* opening handles: writes nothing to disk *)
OpenBySp(x, p, sp) ==
  /\ ~Live(x)
  /\ h' = [h EXCEPT ![x] = NewHandle(x, p, sp, Known(sp), FALSE)] /\ glast' = [glast EXCEPT ![x] = x]
  /\ mem' = [mem EXCEPT ![p] = CacheAfterRead(p)] /\ memRead' = [memRead EXCEPT ![p] = TRUE]
  /\ UNCHANGED <<ws, cacheEx, cacheF, strays, locks, tainted>> /\ Obs("open_sp", <<x, p, sp>>, "ok")

OpenById(x, p, i) ==              \* project.open_job(id=<full id>): cache first (no disk check), then the directory
  /\ ~Live(x)
  /\ LET c == CacheAfterRead(p) IN
     /\ mem' = [mem EXCEPT ![p] = c] /\ memRead' = [memRead EXCEPT ![p] = TRUE]
     /\ IF i \in DOMAIN c
        THEN h' = [h EXCEPT ![x] = NewHandle(x, p, i, Known(c[i]), FALSE)] /\ Obs("open_id", <<x, p, i>>, "ok")
        ELSE IF i \in Dirs(p)
        THEN h' = [h EXCEPT ![x] = NewHandle(x, p, i, NoSp, TRUE)] /\ Obs("open_id", <<x, p, i>>, "ok")
        ELSE h' = h /\ Obs("open_id", <<x, p, i>>, "KeyError")
  /\ glast' = [glast EXCEPT ![x] = x] /\ UNCHANGED <<ws, cacheEx, cacheF, strays, locks, tainted>>

OpenByIter(x, p, i) ==            \* a handle produced by iterating the project / a cursor: no cache-file read
  /\ ~Live(x) /\ i \in Dirs(p)
  /\ h' = [h EXCEPT ![x] = NewHandle(x, p, i, IF i \in DOMAIN mem[p] THEN Known(mem[p][i]) ELSE NoSp, TRUE)]
  /\ glast' = [glast EXCEPT ![x] = x]
  /\ UNCHANGED <<ws, cacheEx, cacheF, mem, memRead, strays, locks, tainted>> /\ Obs("open_iter", <<x, p, i>>, "ok")

---------------------------------------------------------------------------
(* LoadR: evaluating the `job.statepoint` property - creates the state point dict lazily; a handle
   opened by id on a cache miss has to load and validate the file first *)
(* the lock table only matters while D3 exists: once repaired it is not tracked (it would merely multiply the states) *)
AddLock(L, e) == IF FixedD3 THEN L ELSE L \cup {e}
Remap(L, p, old, new) == IF FixedD3 THEN L ELSE (L \ {<<p, old>>}) \cup {<<p, new>>}
LockOfS(S, x) == <<S.h[x].proj, S.h[x].id>>
LoadR(S, x) ==
  LET j == S.h[x]  p == j.proj  i == j.id IN
  IF j.spInit THEN Out(S, "ok")
  ELSE LET S1 == [S EXCEPT !.locks = AddLock(@, <<p, i>>)] IN       \* a lock entry is created together with a dict
       IF j.spMem.known THEN Out([S1 EXCEPT !.h[x].spInit = TRUE], "ok")
       ELSE IF ValidS(S, p, i)
       THEN Out([S1 EXCEPT !.h[x].spInit = TRUE, !.h[x].spMem = Known(i), !.mem[p] = PutF(@, i, i)], "ok")
       ELSE Out(S1, "JobsCorruptedError")                         \* dict object discarded, handle unchanged

(* InitR: Job.init(force) *)
InitR(S, x, force) ==
  LET j == S.h[x]  p == j.proj  i == j.id  rec == RecS(S, p, i)  ld == LoadR(S, x) IN
  IF ld.res # "ok"
  THEN \* opened by id, nothing known to write.  DEVIATION D4: the directory was created before the error propagated
       \* (leaving a job directory without state point file when the job had been removed meanwhile); repaired: fails first
       IF FixedD4 THEN Out(ld.s, "JobsCorruptedError") ELSE
       Out([ld.s EXCEPT !.ws[p] = IF rec.ex THEN @ ELSE PutF(@, i, Dir("missing", AnySp, NoDoc, NoFiles)),
                        !.h[x].dirKnown = TRUE,
                        !.taint = IF rec.ex THEN @ ELSE @ \cup {"stale-id-handle-mkdir"}], "JobsCorruptedError")
  ELSE LET S1 == ld.s IN
       IF ValidS(S, p, i) /\ ~force
       THEN \* early exit: nothing written; the in-memory value is reset from the file
            Out([S1 EXCEPT !.h = SetGroup(@, x, LAMBDA g : [g EXCEPT !.spMem = Known(i)])], "ok")
       ELSE LET val == S1.h[x].spMem.v
                writes == force \/ ~HasFile(rec)
                after == IF writes THEN Dir("ok", val, rec.doc, rec.files) ELSE rec
                good == after.spk = "ok" /\ after.spv = i
                newMem == IF good THEN Known(i) ELSE S1.h[x].spMem
            IN Out([S1 EXCEPT !.ws[p] = PutF(@, i, after),
                              !.h = [y \in Handles |-> IF y = x THEN [@[y] EXCEPT !.dirKnown = TRUE, !.spMem = newMem]
                                                       ELSE IF SameGroup(S1.h, y, x) THEN [@[y] EXCEPT !.spMem = newMem] ELSE @[y]],
                              !.mem[p] = IF good THEN PutF(@, i, i) ELSE @],
                   IF good THEN "ok" ELSE "JobsCorruptedError")

InitJob(x) == /\ Live(x) /\ Apply(InitR(St, x, FALSE), "init", <<x>>)
              /\ UNCHANGED <<cacheEx, cacheF, memRead, strays, glast>>

ReadSp(x) ==                      \* job.statepoint()
  /\ Live(x)
  /\ LET r == LoadR(St, x) IN
     Apply(IF r.res = "ok" THEN OutV(r.s, "ok", {r.s.h[x].spMem.v}) ELSE r, "readsp", <<x>>)
  /\ UNCHANGED <<cacheEx, cacheF, memRead, strays, glast>>

Remove(x) ==
  /\ Live(x)
  /\ LET j == h[x] IN
     /\ ws' = [ws EXCEPT ![j.proj] = DelF(@, j.id)]
     /\ h' = [h EXCEPT ![x].dirKnown = FALSE, ![x].docOpen = IF Rec(j.proj, j.id).ex THEN FALSE ELSE @]
  /\ UNCHANGED <<cacheEx, cacheF, mem, memRead, strays, glast, locks, tainted>> /\ Obs("remove", <<x>>, "ok")

---------------------------------------------------------------------------
(* RekeyR: _StatePointDict._save for the group of x once its in-memory value has become `new`.
   S already contains whatever led there (lazy load, dict creation). *)
RekeyR(S, x, new, okRes, registerNew) ==
  LET j == S.h[x]  p == j.proj  old == j.id  rec == RecS(S, p, old)  dst == RecS(S, p, new)
      regd(m) == IF registerNew THEN PutF(m, new, new) ELSE m IN
  IF new = old
  THEN Out([S EXCEPT !.h = SetGroup(@, x, LAMBDA g : [g EXCEPT !.spMem = Known(new)]), !.mem[p] = regd(@)], okRes)
  ELSE IF ~HasFile(rec)
  THEN \* no state point file to move: only the handles change
       Out([S EXCEPT !.h = SetGroup(@, x, LAMBDA g : [g EXCEPT !.spMem = Known(new), !.id = new, !.docOpen = FALSE]),
                     !.mem[p] = regd(@), !.locks = Remap(@, p, old, new)], okRes)
  ELSE IF dst.ex /\ ~EmptyDir(dst)
  THEN \* destination exists: file and directory rolled back, in-memory value reloaded from the restored file
       \* DEVIATION D7: the roll-back trusted the restored file.  When that had been damaged meanwhile the read failed (the
       \* REJECTED value stayed in memory) or delivered another state point - a handle whose state point does not hash to its
       \* id.  Repaired: a restored file that is unreadable or not this job's state point is not used; fall back to the value
       \* the handles knew before the edit; if there is none, forget the value (loaded + validated on the next access)
       IF ~FixedD7
       THEN IF rec.spk = "garbage"
            THEN Out([S EXCEPT !.h = SetGroup(@, x, LAMBDA g : [g EXCEPT !.spMem = Known(new)])], "JSONDecodeError")
            ELSE Out([S EXCEPT !.h = SetGroup(@, x, LAMBDA g : [g EXCEPT !.spMem = Known(rec.spv)])], "DestinationExistsError")
       ELSE IF rec.spk = "ok" /\ rec.spv = old
            THEN Out([S EXCEPT !.h = SetGroup(@, x, LAMBDA g : [g EXCEPT !.spMem = Known(rec.spv)])], "DestinationExistsError")
            ELSE IF j.spMem.known
            THEN Out([S EXCEPT !.h = SetGroup(@, x, LAMBDA g : [g EXCEPT !.spMem = j.spMem])], "DestinationExistsError")
            ELSE Out([S EXCEPT !.h = SetGroup(@, x, LAMBDA g : [g EXCEPT !.spInit = FALSE, !.spMem = NoSp])], "DestinationExistsError")
  ELSE \* the directory moves (an empty destination directory is taken over); the LAST member of the
       \* group re-initialises it, i.e. writes the new state point file, and registers the id
       Out([S EXCEPT !.ws[p] = PutF(DelF(@, old), new, Dir("ok", new, rec.doc, rec.files)),
                     !.h = [y \in Handles |-> IF SameGroup(S.h, y, x)
                                              THEN [@[y] EXCEPT !.spMem = Known(new), !.id = new, !.docOpen = FALSE,
                                                                !.dirKnown = IF y = glast[j.grp] THEN TRUE ELSE @]
                                              ELSE @[y]],
                     !.mem[p] = PutF(@, new, new),
                     !.locks = Remap(@, p, old, new)], okRes)

(* DEVIATION D3: the dependency keeps one thread lock per FILE NAME in a class-level table and moves the entry when a dict
   changes its file name - away from under the dicts of independently opened handles of the same job, whose next edit then
   fails with KeyError (reset()/clear() only after having changed their in-memory value: "D3-leak").  Repaired in signac
   (the re-keying dict leaves a lock registered under the old name); FixedD3 is probed on the tree under test. *)
LockMissingS(S, x) == ~FixedD3 /\ S.h[x].spInit /\ LockOfS(S, x) \notin S.locks

(* in-place edits of the state point mapping: every one of them is load (lazy), lock (D3), mutate, _save *)
SpEdit(op, args, x, newOf(_), failsIf(_)) ==
  /\ Live(x)
  /\ LET ld == LoadR(St, x) IN
     IF ld.res # "ok" THEN Apply(ld, op, args)
     ELSE IF LockMissingS(St, x) THEN Apply(Out(St, "KeyError"), op, args)                              \* D3
     ELSE LET cur == ld.s.h[x].spMem.v IN
          Apply(RekeyR(ld.s, x, IF failsIf(cur) THEN cur ELSE newOf(cur), IF failsIf(cur) THEN "KeyError" ELSE "ok", FALSE), op, args)
  /\ UNCHANGED <<cacheEx, cacheF, memRead, strays, glast>>

SetKey(x, k, v) ==               \* job.sp[k] = v      (v = Absent: del job.sp[k])
  SpEdit("setkey", <<x, k, v>>, x, LAMBDA cur : [cur EXCEPT ![k] = v], LAMBDA cur : v = Absent /\ cur[k] = Absent)
SpPop(x, k) ==                   \* job.sp.pop(k)     (the synced dict's pop has default None: an absent key is no error)
  SpEdit("sp_pop", <<x, k>>, x, LAMBDA cur : [cur EXCEPT ![k] = Absent], LAMBDA cur : FALSE)
SpSetDefault(x, k, v) ==         \* job.sp.setdefault(k, v)
  /\ v # Absent
  /\ SpEdit("sp_setdefault", <<x, k, v>>, x, LAMBDA cur : IF cur[k] = Absent THEN [cur EXCEPT ![k] = v] ELSE cur, LAMBDA cur : FALSE)
SpUpdate(x, upd) ==              \* job.sp.update({k: v, ...})   (Absent in upd: key not mentioned)
  SpEdit("sp_update", <<x, upd>>, x, LAMBDA cur : [k \in Keys |-> IF upd[k] # Absent THEN upd[k] ELSE cur[k]], LAMBDA cur : FALSE)
SpClear(x) ==                    \* job.sp.clear(): like reset() it empties the in-memory mapping BEFORE taking the lock
  LET empty == [k \in Keys |-> Absent] IN
  /\ Live(x)
  /\ LET ld == LoadR(St, x) IN
     IF ld.res # "ok" THEN Apply(ld, "sp_clear", <<x>>)
     ELSE IF LockMissingS(St, x)
     THEN Apply(Out([St EXCEPT !.h = SetGroup(@, x, LAMBDA g : [g EXCEPT !.spMem = Known(empty)]),
                               !.taint = IF empty = St.h[x].id THEN @ ELSE @ \cup {"D3-leak"}], "KeyError"), "sp_clear", <<x>>)   \* D3
     ELSE Apply(RekeyR(ld.s, x, empty, "ok", FALSE), "sp_clear", <<x>>)
  /\ UNCHANGED <<cacheEx, cacheF, memRead, strays, glast>>

(* AssignR: job.statepoint = new. No load is needed, so it works on a handle opened by id; reset()
   updates the in-memory value BEFORE it takes the lock. *)
AssignR(S, x, new) ==
  LET j == S.h[x]  p == j.proj
      S1 == IF j.spInit THEN S ELSE [S EXCEPT !.h[x].spInit = TRUE, !.locks = AddLock(@, <<p, j.id>>)] IN
  IF LockMissingS(S, x)
  THEN Out([S1 EXCEPT !.h = SetGroup(@, x, LAMBDA g : [g EXCEPT !.spMem = Known(new)]),
                      !.taint = IF new = j.id THEN @ ELSE @ \cup {"D3-leak"}], "KeyError")                    \* D3
  ELSE LET r == RekeyR(S1, x, new, "ok", TRUE) IN r

AssignSp(x, new) == /\ Live(x) /\ Apply(AssignR(St, x, new), "assign", <<x, new>>)
                    /\ UNCHANGED <<cacheEx, cacheF, memRead, strays, glast>>

UpdateSp(x, k, v, ow) ==         \* job.update_statepoint({k: v}, overwrite=ow)
  /\ Live(x) /\ v # Absent
  /\ LET ld == LoadR(St, x) IN
     IF ld.res # "ok" THEN Apply(ld, "update_sp", <<x, k, v, ow>>)
     ELSE LET cur == ld.s.h[x].spMem.v IN
          IF ~ow /\ cur[k] # Absent /\ cur[k] # v THEN Apply(Out(ld.s, "KeyError"), "update_sp", <<x, k, v, ow>>)
          ELSE Apply(AssignR(ld.s, x, [cur EXCEPT ![k] = v]), "update_sp", <<x, k, v, ow>>)
  /\ UNCHANGED <<cacheEx, cacheF, memRead, strays, glast>>

---------------------------------------------------------------------------
(* documents and files (the document as a persistent dict is Documents.tla; here it is one token) *)
DocOpenR(S, x) ==                \* evaluating job.document: init(validate_statepoint=False), then the object is kept
  LET j == S.h[x]  rec == RecS(S, j.proj, j.id) IN
  IF j.docOpen THEN Out(S, "ok")
  ELSE IF j.dirKnown THEN Out([S EXCEPT !.h[x].docOpen = TRUE], "ok")
  ELSE IF rec.ex THEN Out([S EXCEPT !.h[x].docOpen = TRUE, !.h[x].dirKnown = TRUE], "ok")
  ELSE LET r == InitR(S, x, FALSE) IN
       IF r.res = "ok" THEN Out([r.s EXCEPT !.h[x].docOpen = TRUE], "ok") ELSE r

DocWriteR(S, x, d) ==
  LET o == DocOpenR(S, x) IN
  IF o.res # "ok" THEN o
  ELSE LET j == o.s.h[x] IN
       IF RecS(o.s, j.proj, j.id).ex THEN Out([o.s EXCEPT !.ws[j.proj][j.id].doc = d], "ok")
       ELSE Out(o.s, "FileNotFoundError")                         \* stale _directory_known / document object

DocSet(x, d) == /\ Live(x) /\ Apply(DocWriteR(St, x, d), "docset", <<x, d>>)
                /\ UNCHANGED <<cacheEx, cacheF, memRead, strays, glast>>

WriteFile(x, f, c) ==            \* the user writes job.fn(f); only when the directory exists
  /\ Live(x) /\ Rec(h[x].proj, h[x].id).ex
  /\ ws' = [ws EXCEPT ![h[x].proj][h[x].id].files = PutF(@, f, c)]
  /\ UNCHANGED <<cacheEx, cacheF, mem, memRead, strays, h, glast, locks, tainted>> /\ Obs("writefile", <<x, f, c>>, "ok")

ClearR(S, x) ==
  LET j == S.h[x]  rec == RecS(S, j.proj, j.id) IN
  IF ~rec.ex THEN Out(S, "ok")                                    \* nothing there: no-op (does NOT initialise)
  ELSE DocWriteR([S EXCEPT !.ws[j.proj][j.id].files = NoFiles], x, EmptyDoc)

Clear(x) == /\ Live(x) /\ Apply(ClearR(St, x), "clear", <<x>>)
            /\ UNCHANGED <<cacheEx, cacheF, memRead, strays, glast>>

Reset(x) == /\ Live(x)
            /\ LET c == ClearR(St, x) IN
               Apply(IF c.res = "ok" THEN InitR(c.s, x, FALSE) ELSE c, "reset", <<x>>)
            /\ UNCHANGED <<cacheEx, cacheF, memRead, strays, glast>>

---------------------------------------------------------------------------
(* move / clone between projects.  Modelled for handles that are alone in their group (shallow copies of
   a moved handle are left behind by the code with the old project; out of this model's scope). *)
Alone(x) == \A y \in Handles : y # x => ~SameGroup(h, y, x)

Move(x, q) ==
  /\ Live(x) /\ Alone(x) /\ q # h[x].proj
  /\ LET ld == LoadR(St, x)  p == h[x].proj  old == h[x].id IN
     IF ld.res # "ok" THEN Apply(ld, "move", <<x, q>>) /\ UNCHANGED <<memRead>>
     ELSE LET sp == ld.s.h[x].spMem.v  rec == Rec(p, old)  dst == Rec(q, sp)
              S1 == [ld.s EXCEPT !.mem[q] = CacheAfterReadS(ld.s, q)] IN
          /\ memRead' = [memRead EXCEPT ![q] = TRUE]
          /\ IF ~rec.ex THEN Apply(Out(S1, "RuntimeError"), "move", <<x, q>>)
             ELSE IF dst.ex /\ ~EmptyDir(dst) THEN Apply(Out(S1, "DestinationExistsError"), "move", <<x, q>>)
             ELSE Apply(Out([S1 EXCEPT !.ws[p] = DelF(@, old), !.ws[q] = PutF(@, sp, rec),
                                       !.h[x] = NewHandle(x, q, sp, Known(sp), FALSE),
                                       !.mem[q] = PutF(@, sp, sp)], "ok"), "move", <<x, q>>)
  /\ UNCHANGED <<cacheEx, cacheF, strays, glast>>

Clone(x, q, y) ==                \* y = q.clone(job x)
  /\ Live(x) /\ ~Live(y)
  /\ LET ld == LoadR(St, x)  p == h[x].proj  old == h[x].id IN
     IF ld.res # "ok" THEN Apply(ld, "clone", <<x, q, y>>) /\ UNCHANGED <<memRead>>
     ELSE LET sp == ld.s.h[x].spMem.v  rec == Rec(p, old)  dst == Rec(q, sp)
              S1 == [ld.s EXCEPT !.mem[q] = CacheAfterReadS(ld.s, q)] IN
          /\ memRead' = [memRead EXCEPT ![q] = TRUE]
          /\ IF ~rec.ex THEN Apply(Out(S1, "ValueError"), "clone", <<x, q, y>>)
             ELSE IF dst.ex THEN Apply(Out(S1, "DestinationExistsError"), "clone", <<x, q, y>>)
             ELSE Apply(Out([S1 EXCEPT !.ws[q] = PutF(@, sp, rec), !.h[y] = NewHandle(y, q, sp, Known(sp), FALSE)], "ok"),
                        "clone", <<x, q, y>>)
  /\ glast' = [glast EXCEPT ![y] = y] /\ UNCHANGED <<cacheEx, cacheF, strays>>

CopyHandle(x, y) ==              \* y = copy.copy(x)
  /\ Live(x) /\ ~Live(y)
  /\ LET j == h[x] IN
     IF j.spInit
     THEN /\ h' = [h EXCEPT ![y] = j] /\ glast' = [glast EXCEPT ![j.grp] = y]
          /\ UNCHANGED <<mem, locks>> /\ Obs("copy", <<x, y>>, "ok")
     ELSE \* DEVIATION D2: the copy builds its OWN state point dict, so it will not follow a later re-key
          LET S0 == [St EXCEPT !.h[y] = [j EXCEPT !.grp = y]]  ld == LoadR(S0, y) IN
          /\ glast' = [glast EXCEPT ![y] = y]
          /\ IF ld.res = "ok" THEN h' = ld.s.h ELSE h' = h
          /\ mem' = ld.s.mem /\ locks' = ld.s.locks /\ Obs("copy", <<x, y>>, ld.res)
  /\ UNCHANGED <<ws, cacheEx, cacheF, memRead, strays, tainted>>

---------------------------------------------------------------------------
(* the persistent cache *)
UpdateCache(p) ==
  LET fileC == IF cacheEx[p] THEN cacheF[p] ELSE <<>>
      afterRead == MergeF(mem[p], fileC)
      toAdd == Dirs(p) \ DOMAIN afterRead
      newMem == MergeF(RestrictF(afterRead, Dirs(p)), [i \in {i \in toAdd : Valid(p, i)} |-> i])
  IN /\ mem' = [mem EXCEPT ![p] = newMem]
     /\ IF \E i \in toAdd : ~Valid(p, i)
        THEN UNCHANGED <<cacheEx, cacheF>> /\ Obs("update_cache", <<p>>, "JobsCorruptedError")
        ELSE IF ~cacheEx[p] \/ DOMAIN fileC # Dirs(p)
        THEN cacheEx' = [cacheEx EXCEPT ![p] = TRUE] /\ cacheF' = [cacheF EXCEPT ![p] = newMem] /\ Obs("update_cache", <<p>>, "written")
        ELSE UNCHANGED <<cacheEx, cacheF>> /\ Obs("update_cache", <<p>>, "none")
     /\ UNCHANGED <<ws, memRead, strays, h, glast, locks, tainted>>

DeleteCache(p) == /\ cacheEx[p] /\ cacheEx' = [cacheEx EXCEPT ![p] = FALSE] /\ cacheF' = [cacheF EXCEPT ![p] = <<>>]
                  /\ UNCHANGED <<ws, mem, memRead, strays, h, glast, locks, tainted>> /\ Obs("delete_cache", <<p>>, "ok")

Restart == /\ (\E x \in Handles : Live(x)) \/ (\E p \in Projects : memRead[p] \/ mem[p] # <<>>)
           /\ h' = [x \in Handles |-> DeadHandle] /\ glast' = [x \in Handles |-> x]
           /\ mem' = [p \in Projects |-> <<>>] /\ memRead' = [p \in Projects |-> FALSE]
           /\ UNCHANGED <<ws, cacheEx, cacheF, strays, locks, tainted>> /\ Obs("restart", <<>>, "ok")

AddStray(p, k) == /\ k \notin strays[p] /\ strays' = [strays EXCEPT ![p] = @ \cup {k}]
                  /\ UNCHANGED <<ws, cacheEx, cacheF, mem, memRead, h, glast, locks, tainted>> /\ Obs("stray", <<p, k>>, "ok")
StrayKinds == {"id_backup", "hex31", "hex33", "upper"}
MkDir(p, i) ==                   \* someone creates an empty directory named like an id (what an interrupted init() leaves behind)
  /\ i \notin Dirs(p)
  /\ ws' = [ws EXCEPT ![p] = PutF(@, i, Dir("missing", AnySp, NoDoc, NoFiles))]
  /\ tainted' = tainted \cup {"empty-id-directory"}
  /\ UNCHANGED <<cacheEx, cacheF, mem, memRead, strays, h, glast, locks>> /\ Obs("mkdir_empty", <<p, i>>, "ok")

---------------------------------------------------------------------------
(* damage (done behind signac's back), check(), repair() *)
Corrupt(p, i, k) ==              \* k: "missing" | "garbage"
  /\ i \in Dirs(p) /\ HasFile(ws[p][i]) /\ ws[p][i].spk # k
  /\ ws' = [ws EXCEPT ![p][i].spk = k]
  /\ UNCHANGED <<cacheEx, cacheF, mem, memRead, strays, h, glast, locks, tainted>> /\ Obs("corrupt", <<p, i, k>>, "ok")
CorruptOther(p, i, sp) ==        \* the file is replaced by other valid JSON (another state point)
  /\ i \in Dirs(p) /\ sp # i /\ ~(ws[p][i].spk = "ok" /\ ws[p][i].spv = sp)
  /\ ws' = [ws EXCEPT ![p][i].spk = "ok", ![p][i].spv = sp]
  /\ UNCHANGED <<cacheEx, cacheF, mem, memRead, strays, h, glast, locks, tainted>> /\ Obs("corrupt_other", <<p, i, sp>>, "ok")
RenameDir(p, i, i2) ==
  /\ i \in Dirs(p) /\ i2 \notin Dirs(p)
  /\ ws' = [ws EXCEPT ![p] = PutF(DelF(@, i), i2, ws[p][i])]
  /\ UNCHANGED <<cacheEx, cacheF, mem, memRead, strays, h, glast, locks, tainted>> /\ Obs("rename_dir", <<p, i, i2>>, "ok")

Check(p) == /\ LET bad == {i \in Dirs(p) : ~Valid(p, i)} IN
               ObsV("check", <<p>>, IF bad = {} THEN "ok" ELSE "JobsCorruptedError", bad)
            /\ UNCHANGED <<ws, cacheEx, cacheF, mem, memRead, strays, h, glast, locks, tainted>>

(* repair(): for every listed id, in listing order: look the state point up (session cache + cache file, else the
   unvalidated file), move a misnamed directory to its proper name, init(), and init(force) if that fails *)
RepairOne(S, p, i) ==            \* -> [s, bad]
  LET rec == RecS(S, p, i) IN
  IF ~rec.ex THEN [s |-> S, bad |-> TRUE]
  ELSE IF i \notin DOMAIN S.mem[p] /\ rec.spk # "ok" THEN [s |-> S, bad |-> TRUE]
  ELSE LET sp == IF i \in DOMAIN S.mem[p] THEN S.mem[p][i] ELSE rec.spv
           S1 == S                                                   \* (an unvalidated value never enters the session cache)
           dst == RecS(S1, p, sp) IN
       IF sp # i /\ dst.ex /\ ~EmptyDir(dst) THEN [s |-> S1, bad |-> TRUE]
       ELSE LET S2 == IF sp = i THEN S1 ELSE [S1 EXCEPT !.ws[p] = PutF(DelF(@, i), sp, rec)]
                r2 == RecS(S2, p, sp)
                wasValid == ValidS(S2, p, sp) IN
            [s |-> [S2 EXCEPT !.ws[p] = PutF(@, sp, Dir("ok", sp, r2.doc, r2.files)),
                              !.mem[p] = IF wasValid THEN @ ELSE PutF(@, sp, sp),
                              !.locks = AddLock(@, <<p, sp>>)],
             bad |-> FALSE]
RECURSIVE RepairSeq(_, _, _, _)
RepairSeq(S, p, ids, bad) == IF ids = <<>> THEN [s |-> S, bad |-> bad]
                             ELSE LET r == RepairOne(S, p, Head(ids)) IN
                                  RepairSeq(r.s, p, Tail(ids), IF r.bad THEN bad \cup {Head(ids)} ELSE bad)
Repair(p) ==
  /\ LET S0 == [St EXCEPT !.mem[p] = IF cacheEx[p] THEN MergeF(@, cacheF[p]) ELSE @]
         ids == SelectSeq(IdOrder, LAMBDA i : i \in Dirs(p))
         r == RepairSeq(S0, p, ids, {}) IN
     /\ ws' = r.s.ws /\ mem' = r.s.mem /\ locks' = r.s.locks
     /\ memRead' = [memRead EXCEPT ![p] = @ \/ ids # <<>>]
     /\ ObsV("repair", <<p>>, IF r.bad = {} THEN "ok" ELSE "JobsCorruptedError", r.bad)
  /\ UNCHANGED <<cacheEx, cacheF, strays, h, glast, tainted>>

---------------------------------------------------------------------------
On(o) == o \in Ops
Next ==
  \/ On("open_sp")   /\ \E x \in Handles, p \in Projects, sp \in SP : OpenBySp(x, p, sp)
  \/ On("open_id")   /\ \E x \in Handles, p \in Projects, i \in SP : OpenById(x, p, i)
  \/ On("open_iter") /\ \E x \in Handles, p \in Projects, i \in SP : OpenByIter(x, p, i)
  \/ On("init")      /\ \E x \in Handles : InitJob(x)
  \/ On("readsp")    /\ \E x \in Handles : ReadSp(x)
  \/ On("remove")    /\ \E x \in Handles : Remove(x)
  \/ On("setkey")    /\ \E x \in Handles, k \in Keys, v \in Vals \cup {Absent} : SetKey(x, k, v)
  \/ On("sp_pop")    /\ \E x \in Handles, k \in Keys : SpPop(x, k)
  \/ On("sp_setdefault") /\ \E x \in Handles, k \in Keys, v \in Vals : SpSetDefault(x, k, v)
  \/ On("sp_update") /\ \E x \in Handles, u \in SP : SpUpdate(x, u)
  \/ On("sp_clear")  /\ \E x \in Handles : SpClear(x)
  \/ On("assign")    /\ \E x \in Handles, sp \in SP : AssignSp(x, sp)
  \/ On("update_sp") /\ \E x \in Handles, k \in Keys, v \in Vals, ow \in BOOLEAN : UpdateSp(x, k, v, ow)
  \/ On("docset")    /\ \E x \in Handles, d \in DocVals : DocSet(x, d)
  \/ On("writefile") /\ \E x \in Handles, f \in FileNames, c \in FVals : WriteFile(x, f, c)
  \/ On("clear")     /\ \E x \in Handles : Clear(x)
  \/ On("reset")     /\ \E x \in Handles : Reset(x)
  \/ On("move")      /\ \E x \in Handles, q \in Projects : Move(x, q)
  \/ On("clone")     /\ \E x, y \in Handles, q \in Projects : Clone(x, q, y)
  \/ On("copy")      /\ \E x, y \in Handles : CopyHandle(x, y)
  \/ On("update_cache") /\ \E p \in Projects : UpdateCache(p)
  \/ On("delete_cache") /\ \E p \in Projects : DeleteCache(p)
  \/ On("restart")   /\ Restart
  \/ On("stray")     /\ \E p \in Projects, k \in StrayKinds : AddStray(p, k)
  \/ On("mkdir_empty") /\ \E p \in Projects, i \in SP : MkDir(p, i)
  \/ On("corrupt")   /\ \E p \in Projects, i \in SP, k \in {"missing", "garbage"} : Corrupt(p, i, k)
  \/ On("corrupt_other") /\ \E p \in Projects, i \in SP, sp \in SP : CorruptOther(p, i, sp)
  \/ On("rename_dir") /\ \E p \in Projects, i \in SP, i2 \in SP : RenameDir(p, i, i2)
  \/ On("check")     /\ \E p \in Projects : Check(p)
  \/ On("repair")    /\ \E p \in Projects : Repair(p)

Spec == Init /\ [][Next]_vars
Depth == TLCGet("level") <= MaxDepth
View == <<ws, cacheEx, cacheF, mem, memRead, strays, h, glast, locks, tainted>>

---------------------------------------------------------------------------
(* REQUIREMENTS.  The conformant model above is expected to violate some of them exactly where the code
   does (D2, D3, ...): TLC's counterexample is then replayed on the real code by the harness. *)
Damaging == Ops \cap {"corrupt", "corrupt_other", "rename_dir"} # {}
IsOk == last.res = "ok"
(* C03 *)
HashInv     == \A p \in Projects : \A i \in Dirs(p) : ws[p][i].spk = "ok" => ws[p][i].spv = i
\* ... known to fail once DEVIATION D3 has left a rejected value in a handle's memory (reset() updates, then fails on its lock)
HashInvX    == "D3-leak" \in tainted \/ HashInv
CheckPasses == \A p \in Projects : \A i \in Dirs(p) : Valid(p, i)
\* ... except for the one known way to fail it: an operation through a handle opened by id, whose job was removed
\* meanwhile, creates a directory without state point file before it raises JobsCorruptedError (later writes through
\* other stale handles may then add a document to it)
CheckPassesX == tainted \cap {"D3-leak", "stale-id-handle-mkdir", "empty-id-directory"} # {} \/ CheckPasses
(* C02 *)
Lazy        == [][last'.op \in {"open_sp", "open_id", "open_iter"} => UNCHANGED <<ws, cacheEx, cacheF>>]_vars
PersistExact == [][(last'.op = "init" /\ last'.res = "ok") => \E x \in Handles : last'.args = <<x>> /\ ValidIn(ws', h'[x].proj, h'[x].id)]_vars
InitIdempotent == [][(last'.op = "init" /\ \E x \in Handles : last'.args = <<x>> /\ Valid(h[x].proj, h[x].id)) => ws' = ws]_vars
(* C04 *)
NoClobber   == [][last'.res = "DestinationExistsError" => ws' = ws]_vars
RekeyOps    == {"setkey", "assign", "update_sp", "sp_pop", "sp_setdefault", "sp_update", "sp_clear"}
Rekeyed(x)  == last'.op \in RekeyOps /\ last'.res = "ok" /\ last'.args[1] = x /\ h'[x].id # h[x].id
RekeyCarries == [][\A x \in Handles : (Rekeyed(x) /\ HasFile(Rec(h[x].proj, h[x].id))) =>      \* an initialised job
                     LET p == h[x].proj  old == h[x].id  new == h'[x].id IN
                     /\ new \in DOMAIN ws'[p] /\ old \notin DOMAIN ws'[p]
                     /\ ws'[p][new].doc = ws[p][old].doc /\ ws'[p][new].files = ws[p][old].files
                     /\ ws'[p][new].spk = "ok" /\ ws'[p][new].spv = new]_vars
HandlesFollow == [][\A x \in Handles : Rekeyed(x) =>
                     \A y \in Handles : (Live(y) /\ h[y].root = h[x].root /\ h[y].id = h[x].id /\ h[y].proj = h[x].proj)
                                         => (h'[y].id = h'[x].id /\ h'[y].spMem = h'[x].spMem)]_vars
UpdateNoOverwrite == [][(last'.op = "update_sp" /\ last'.res = "KeyError") => ws' = ws /\ \A x \in Handles : h'[x].id = h[x].id]_vars
MoveKeepsId == [][\A x \in Handles : (last'.op = "move" /\ last'.res = "ok" /\ last'.args[1] = x) =>
                    LET p == h[x].proj  q == h'[x].proj  i == h[x].id IN
                    /\ h'[x].id = i /\ i \notin DOMAIN ws'[p] /\ i \in DOMAIN ws'[q] /\ ws'[q][i] = ws[p][i]]_vars
CloneIndependent == [][(last'.op = "clone" /\ last'.res = "ok") =>
                    LET x == last'.args[1]  q == last'.args[2]  y == last'.args[3]  p == h[x].proj  i == h[x].id IN
                    /\ ws'[p][i] = ws[p][i] /\ h'[y].id = i /\ ws'[q][i] = ws[p][i]]_vars
(* C08 *)
CacheSound  == ~Damaging => \A p \in Projects : (\A i \in DOMAIN cacheF[p] : cacheF[p][i] = i) /\ (\A i \in DOMAIN mem[p] : mem[p][i] = i)
UpdateCacheExact == [][\A p \in Projects : (last'.op = "update_cache" /\ last'.args = <<p>> /\ last'.res # "JobsCorruptedError")
                         => cacheEx'[p] /\ DOMAIN cacheF'[p] = Dirs(p)' /\ \A i \in DOMAIN cacheF'[p] : cacheF'[p][i] = i]_vars
SecondCallNoop == [][(last.op = "update_cache" /\ last'.op = "update_cache" /\ last.args = last'.args /\ last.res # "JobsCorruptedError") => last'.res = "none"]_vars
(* C09 *)
NeverAcceptWrong == [][(last'.op = "readsp" /\ last'.res = "ok") => \E x \in Handles : last'.args = <<x>> /\ last'.val = {h'[x].id}]_vars
NeverAcceptWrongX == [][(last'.op = "readsp" /\ last'.res = "ok" /\ "D3-leak" \notin tainted') => \E x \in Handles : last'.args = <<x>> /\ last'.val = {h'[x].id}]_vars
Recoverable(p, i) == \/ Valid(p, i)
                     \/ i \in DOMAIN mem[p] \/ (cacheEx[p] /\ i \in DOMAIN cacheF[p])
HasPayload(r) == r.doc # NoDoc \/ r.files # NoFiles
RepairFrame == [][last'.op = "repair" => \A p \in Projects :
                    \* no document or data file of any job changes (directories may be renamed; a directory that holds nothing
                    \* at all - no state point, document or file - may be taken over by a misnamed one)
                    {<<ws[p][i].doc, ws[p][i].files>> : i \in {i \in Dirs(p) : HasPayload(ws[p][i])}}
                      = {<<ws'[p][i].doc, ws'[p][i].files>> : i \in {i \in Dirs(p)' : HasPayload(ws'[p][i])}}]_vars
RepairRestores == [][\A p \in Projects : (last'.op = "repair" /\ last'.args = <<p>>) =>
                    /\ \A i \in Dirs(p) : (Recoverable(p, i) /\ (\A i2 \in DOMAIN mem[p] : mem[p][i2] = i2)) => (i \in Dirs(p)' /\ ValidIn(ws', p, i))
                    /\ (last'.res = "ok" => \A i \in Dirs(p)' : ValidIn(ws', p, i))]_vars
=============================================================================

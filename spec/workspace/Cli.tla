------------------------------- MODULE Cli -------------------------------
(* The command line front end (signac/__main__.py) over the same workspace state as Workspace.tla.

   Every command is its own process: it starts from what is ON DISK (job directories, cache file), opens
   the project, does one thing through the library and exits; nothing in memory survives.  Each action
   below is therefore written as a COMPOSITION of the Workspace operators (LoadR, InitR, ClearR, DocOpenR:
   the same definitions the library-level model uses, so the two front ends cannot drift apart) applied
   to a fresh session state with one temporary handle.  The session variables of Workspace (h, mem,
   memRead, glast, locks) never change here.

   What a command reports is its exit status and what it prints:
     res  = "ok" (exit 0) | "error" (exit 1, "Error: ...") | "exists" (move / clone: exit 0 with the
            message "Destination already exists") | "written" / "none" (update-cache)
     val  = the printed ids / state points / documents, as a set of tokens.

   Environment actions (a user writing a document or data file of a job directly, damage, strays, an
   empty id-named directory, deleting the cache file) are the handle-free actions of Workspace.          *)
EXTENDS Workspace

Tmp == CHOOSE x \in Handles : TRUE

(* the session of a fresh process once it has looked anything up: Project._sp_cache = content of the cache file *)
FreshS(p) == [St EXCEPT !.mem[p] = IF cacheEx[p] THEN cacheF[p] ELSE <<>>]

(* project.open_job(id=<full id>) in that session: the cache first (no look at the disk), then the directory *)
OpenIdS(S, p, i) ==
  IF i \in DOMAIN S.mem[p] THEN [ok |-> TRUE, s |-> [S EXCEPT !.h[Tmp] = NewHandle(Tmp, p, i, Known(S.mem[p][i]), FALSE)]]
  ELSE IF i \in Dirs(p)    THEN [ok |-> TRUE, s |-> [S EXCEPT !.h[Tmp] = NewHandle(Tmp, p, i, NoSp, TRUE)]]
  ELSE [ok |-> FALSE, s |-> S]

(* Project._get_statepoint(i): cache entry, else the validated file *)
SpOf(p, i) == LET c == FreshS(p).mem[p] IN
              IF i \in DOMAIN c THEN Known(c[i]) ELSE IF Valid(p, i) THEN Known(i) ELSE NoSp

CliRes(r) == IF r = "ok" THEN "ok" ELSE IF r = "DestinationExistsError" THEN "exists" ELSE "error"
Done(W, T, op, args, res, val) ==
  /\ ws' = W /\ tainted' = T /\ last' = [op |-> op, args |-> args, res |-> res, val |-> val]
  /\ UNCHANGED <<cacheEx, cacheF, mem, memRead, strays, h, glast, locks>>
ReadOnly(op, args, res, val) == Done(ws, tainted, op, args, res, val)

---------------------------------------------------------------------------
(* signac job [-c] '<state point>'  : prints the id; -c initialises the job *)
CliJob(p, sp, create) ==
  LET S0 == [FreshS(p) EXCEPT !.h[Tmp] = NewHandle(Tmp, p, sp, Known(sp), FALSE)]
      r  == IF create THEN InitR(S0, Tmp, FALSE) ELSE Out(S0, "ok") IN
  Done(r.s.ws, r.s.taint, IF create THEN "cli_job_c" ELSE "cli_job", <<p, sp>>, CliRes(r.res), IF r.res = "ok" THEN {sp} ELSE {})

(* signac statepoint <id> *)
CliStatepoint(p, i) ==
  LET o == OpenIdS(FreshS(p), p, i) IN
  IF ~o.ok THEN ReadOnly("cli_statepoint", <<p, i>>, "error", {})
  ELSE LET r == LoadR(o.s, Tmp) IN
       ReadOnly("cli_statepoint", <<p, i>>, CliRes(r.res), IF r.res = "ok" THEN {r.s.h[Tmp].spMem.v} ELSE {})

(* signac statepoint   (no id: every job of the project, in listing order; stops at the first unreadable one).
   The handles come from iterating the project (Workspace!OpenByIter): the cache FILE is not consulted, every
   state point file is read and validated. *)
CliStatepointAll(p) ==
  LET bad == {i \in Dirs(p) : ~Valid(p, i)} IN
  ReadOnly("cli_statepoint_all", <<p>>, IF bad = {} THEN "ok" ELSE "error", IF bad = {} THEN Dirs(p) ELSE {})

(* signac document <id> : evaluating job.document initialises a job whose directory does not exist *)
CliDocument(p, i) ==
  LET o == OpenIdS(FreshS(p), p, i) IN
  IF ~o.ok THEN ReadOnly("cli_document", <<p, i>>, "error", {})
  ELSE LET r == DocOpenR(o.s, Tmp)
           j == r.s.h[Tmp]
           d == RecS(r.s, j.proj, j.id).doc IN
       Done(r.s.ws, r.s.taint, "cli_document", <<p, i>>, CliRes(r.res),
            IF r.res = "ok" THEN {IF d = NoDoc THEN EmptyDoc ELSE d} ELSE {})

(* signac rm <id>   /   signac rm -c <id> *)
CliRm(p, i) ==
  LET o == OpenIdS(FreshS(p), p, i) IN
  IF ~o.ok THEN ReadOnly("cli_rm", <<p, i>>, "error", {})
  ELSE Done([ws EXCEPT ![p] = DelF(@, i)], tainted, "cli_rm", <<p, i>>, "ok", {})
CliClear(p, i) ==
  LET o == OpenIdS(FreshS(p), p, i) IN
  IF ~o.ok THEN ReadOnly("cli_clear", <<p, i>>, "error", {})
  ELSE LET r == ClearR(o.s, Tmp) IN Done(r.s.ws, r.s.taint, "cli_clear", <<p, i>>, CliRes(r.res), {})

(* signac move <project> <id>  /  signac clone <project> <id> : "Destination already exists" is reported, exit status 0 *)
CliMove(p, q, i) ==
  /\ q # p
  /\ LET o == OpenIdS(FreshS(p), p, i) IN
     IF ~o.ok THEN ReadOnly("cli_move", <<p, q, i>>, "error", {})
     ELSE LET ld == LoadR(o.s, Tmp) IN
          IF ld.res # "ok" THEN ReadOnly("cli_move", <<p, q, i>>, "error", {})
          ELSE LET sp == ld.s.h[Tmp].spMem.v  rec == Rec(p, i)  dst == Rec(q, sp) IN
               IF ~rec.ex THEN ReadOnly("cli_move", <<p, q, i>>, "error", {})
               ELSE IF dst.ex /\ ~EmptyDir(dst) THEN ReadOnly("cli_move", <<p, q, i>>, "exists", {})
               ELSE Done([ws EXCEPT ![p] = DelF(@, i), ![q] = PutF(@, sp, rec)], tainted, "cli_move", <<p, q, i>>, "ok", {})
CliClone(p, q, i) ==
  LET o == OpenIdS(FreshS(p), p, i) IN
  IF ~o.ok THEN ReadOnly("cli_clone", <<p, q, i>>, "error", {})
  ELSE LET ld == LoadR(o.s, Tmp) IN
       IF ld.res # "ok" THEN ReadOnly("cli_clone", <<p, q, i>>, "error", {})
       ELSE LET sp == ld.s.h[Tmp].spMem.v  rec == Rec(p, i)  dst == Rec(q, sp) IN
            IF ~rec.ex THEN ReadOnly("cli_clone", <<p, q, i>>, "error", {})
            ELSE IF dst.ex THEN ReadOnly("cli_clone", <<p, q, i>>, "exists", {})
            ELSE Done([ws EXCEPT ![q] = PutF(@, sp, rec)], tainted, "cli_clone", <<p, q, i>>, "ok", {})

(* signac find            : the listing (every directory named like an id)
   signac find <k> <v>    : the index over the state points (cache entry, else validated file) *)
CliFindAll(p) == ReadOnly("cli_find_all", <<p>>, "ok", Dirs(p))
CliFind(p, k, v) ==
  LET bad == {i \in Dirs(p) : ~SpOf(p, i).known} IN
  ReadOnly("cli_find", <<p, k, v>>, IF bad = {} THEN "ok" ELSE "error",
           IF bad = {} THEN {i \in Dirs(p) : SpOf(p, i).v[k] = v} ELSE {})

(* signac update-cache : Project.update_cache() of a fresh session *)
CliUpdateCache(p) ==
  LET fileC == IF cacheEx[p] THEN cacheF[p] ELSE <<>>
      toAdd == Dirs(p) \ DOMAIN fileC
      newC  == MergeF(RestrictF(fileC, Dirs(p)), [i \in {i \in toAdd : Valid(p, i)} |-> i]) IN
  /\ IF \E i \in toAdd : ~Valid(p, i)
     THEN UNCHANGED <<cacheEx, cacheF>> /\ Obs("cli_update_cache", <<p>>, "error")
     ELSE IF ~cacheEx[p] \/ DOMAIN fileC # Dirs(p)
     THEN cacheEx' = [cacheEx EXCEPT ![p] = TRUE] /\ cacheF' = [cacheF EXCEPT ![p] = newC] /\ Obs("cli_update_cache", <<p>>, "written")
     ELSE UNCHANGED <<cacheEx, cacheF>> /\ Obs("cli_update_cache", <<p>>, "none")
  /\ UNCHANGED <<ws, mem, memRead, strays, h, glast, locks, tainted>>

(* the user (or a job script) writes into a job directory directly *)
EnvDoc(p, i, d) == /\ i \in Dirs(p)
                   /\ Done([ws EXCEPT ![p][i].doc = d], tainted, "env_doc", <<p, i, d>>, "ok", {})
EnvFile(p, i, f, c) == /\ i \in Dirs(p)
                       /\ Done([ws EXCEPT ![p][i].files = PutF(@, f, c)], tainted, "env_file", <<p, i, f, c>>, "ok", {})

CliNext ==
  \/ On("cli_job")        /\ \E p \in Projects, sp \in SP : CliJob(p, sp, FALSE)
  \/ On("cli_job_c")      /\ \E p \in Projects, sp \in SP : CliJob(p, sp, TRUE)
  \/ On("cli_statepoint") /\ \E p \in Projects, i \in SP : CliStatepoint(p, i)
  \/ On("cli_statepoint_all") /\ \E p \in Projects : CliStatepointAll(p)
  \/ On("cli_document")   /\ \E p \in Projects, i \in SP : CliDocument(p, i)
  \/ On("cli_rm")         /\ \E p \in Projects, i \in SP : CliRm(p, i)
  \/ On("cli_clear")      /\ \E p \in Projects, i \in SP : CliClear(p, i)
  \/ On("cli_move")       /\ \E p, q \in Projects, i \in SP : CliMove(p, q, i)
  \/ On("cli_clone")      /\ \E p, q \in Projects, i \in SP : CliClone(p, q, i)
  \/ On("cli_find_all")   /\ \E p \in Projects : CliFindAll(p)
  \/ On("cli_find")       /\ \E p \in Projects, k \in Keys, v \in Vals : CliFind(p, k, v)
  \/ On("cli_update_cache") /\ \E p \in Projects : CliUpdateCache(p)
  \/ On("env_doc")        /\ \E p \in Projects, i \in SP, d \in DocVals : EnvDoc(p, i, d)
  \/ On("env_file")       /\ \E p \in Projects, i \in SP, f \in FileNames, c \in FVals : EnvFile(p, i, f, c)
  \/ On("delete_cache")   /\ \E p \in Projects : DeleteCache(p)
  \/ On("stray")          /\ \E p \in Projects, k \in StrayKinds : AddStray(p, k)
  \/ On("mkdir_empty")    /\ \E p \in Projects, i \in SP : MkDir(p, i)
  \/ On("corrupt")        /\ \E p \in Projects, i \in SP, k \in {"missing", "garbage"} : Corrupt(p, i, k)
  \/ On("corrupt_other")  /\ \E p \in Projects, i \in SP, sp \in SP : CorruptOther(p, i, sp)
  \/ On("rename_dir")     /\ \E p \in Projects, i \in SP, i2 \in SP : RenameDir(p, i, i2)

CliSpec == Init /\ [][CliNext]_vars
CliView == <<ws, cacheEx, cacheF, strays, tainted>>

---------------------------------------------------------------------------
(* REQUIREMENTS: the listed properties as a user of the command line meets them *)
SessionUntouched == [][UNCHANGED <<h, mem, memRead, glast, locks>>]_vars                       \* (sanity of this module)
(* C02 *)
CliReadOnly == [][last'.op \in {"cli_job", "cli_statepoint", "cli_statepoint_all", "cli_find", "cli_find_all"}
                    => UNCHANGED <<ws, cacheEx, cacheF, strays>>]_vars
CliCreateExact == [][(last'.op = "cli_job_c" /\ last'.res = "ok") => ValidIn(ws', last'.args[1], last'.args[2])]_vars
CliCreateIdempotent == [][(last'.op = "cli_job_c" /\ Valid(last'.args[1], last'.args[2])) => (ws' = ws /\ last'.res = "ok")]_vars
CliJobPrintsId == [][(last'.op \in {"cli_job", "cli_job_c"} /\ last'.res = "ok") => last'.val = {last'.args[2]}]_vars
(* C03 *)
CliHashInv == Damaging \/ HashInv
CliCheckPasses == (Damaging \/ "empty-id-directory" \in tainted) \/ CheckPasses
(* C04 *)
CliNoClobber == [][last'.res = "exists" => ws' = ws]_vars
CliMoveKeepsId == [][(last'.op = "cli_move" /\ last'.res = "ok") =>
                      LET p == last'.args[1]  q == last'.args[2]  i == last'.args[3] IN
                      Valid(p, i) => (i \notin DOMAIN ws'[p] /\ i \in DOMAIN ws'[q] /\ ws'[q][i] = ws[p][i]
                                      /\ \A j \in DOMAIN ws[q] \ {i} : j \in DOMAIN ws'[q] /\ ws'[q][j] = ws[q][j])]_vars
CliCloneIndependent == [][(last'.op = "cli_clone" /\ last'.res = "ok") =>
                      LET p == last'.args[1]  q == last'.args[2]  i == last'.args[3] IN
                      Valid(p, i) => (ws'[p] = ws[p] /\ i \in DOMAIN ws'[q] /\ ws'[q][i] = ws[p][i])]_vars
CliErrorFrame == [][(last'.op \in {"cli_rm", "cli_clear", "cli_move", "cli_clone"} /\ last'.res = "error" /\ ~Damaging) => ws' = ws]_vars
CliRmFrame == [][last'.op \in {"cli_rm", "cli_clear"} =>
                   LET p == last'.args[1]  i == last'.args[2] IN
                   /\ \A q \in Projects : \A j \in DOMAIN ws[q] : (q # p \/ j # i) => (j \in DOMAIN ws'[q] /\ ws'[q][j] = ws[q][j])
                   /\ (last'.op = "cli_clear" /\ last'.res = "ok" /\ Valid(p, i)) =>
                        (ValidIn(ws', p, i) /\ ws'[p][i].files = NoFiles /\ ws'[p][i].doc = EmptyDoc)]_vars
(* C08 *)
CliCacheSound == Damaging \/ \A p \in Projects : \A i \in DOMAIN cacheF[p] : cacheF[p][i] = i
CliUpdateCacheExact == [][\A p \in Projects : (last'.op = "cli_update_cache" /\ last'.args = <<p>> /\ last'.res # "error")
                            => cacheEx'[p] /\ DOMAIN cacheF'[p] = Dirs(p) /\ \A i \in DOMAIN cacheF'[p] : cacheF'[p][i] = i]_vars
CliSecondCallNoop == [][(last.op = "cli_update_cache" /\ last'.op = "cli_update_cache" /\ last.args = last'.args /\ last.res # "error")
                            => last'.res = "none"]_vars
(* C09 / C06: what is printed for an id is that id's state point, also next to damage of OTHER jobs and with any cache
   written by the tool itself; a query answers exactly the jobs whose state point matches *)
CacheHonest == \A p \in Projects : \A i \in DOMAIN cacheF[p] : cacheF[p][i] = i
CliNeverPrintsWrong == [][(last'.op = "cli_statepoint" /\ last'.res = "ok" /\ CacheHonest) => last'.val = {last'.args[2]}]_vars
CliFindExact == [][(last'.op = "cli_find" /\ last'.res = "ok" /\ CacheHonest) =>
                     LET p == last'.args[1]  k == last'.args[2]  v == last'.args[3] IN
                     last'.val = {i \in Dirs(p) : i[k] = v}]_vars
=============================================================================

-------------------------- MODULE WorkspaceTrace --------------------------
(* code -> spec: validates recorded executions of the real library against Workspace.tla.
   One NDJSON record per trace: [ev |-> <<event, ...>>]; an event logs the operation with its arguments
   and, AFTER the call returned, its result and the projected state (job directories with state point /
   document / files tokens, cache file, ids of the live handles, session-cache keys).
   All of a trace's unlogged variables (lazy handle fields, lock table, taint) are determined by the
   specification's actions, so validation is linear. Thousands of traces per TLC run: `tid` picks the
   trace, register tid holds the longest matched prefix, the POSTCONDITION prints every rejected trace
   with the first event that no action of the specification explains.  (-workers 1)               *)
EXTENDS Workspace, Json, IOUtils, TLCExt
Traces == ndJsonDeserialize(IOEnv.TRACE_FILE)
NT == Len(Traces)
ASSUME \A i \in 1..NT : TLCSet(i, 0) /\ TLCSet(NT + i, "none")
VARIABLES tid, l, bad      \* bad: "none" | "disk" (projected files / cache differ) | "other" (result, handles, session cache)
tvars == <<vars, tid, l, bad>>
Ev == Traces[tid].ev
E  == Ev[l]
A(k) == E.args[k]

TrInit == Init /\ tid \in 1..Len(Traces) /\ l = 1 /\ bad = "none"

Act ==
  CASE E.op = "open_sp"   -> OpenBySp(A(1), A(2), A(3))
    [] E.op = "open_id"   -> OpenById(A(1), A(2), A(3))
    [] E.op = "open_iter" -> OpenByIter(A(1), A(2), A(3))
    [] E.op = "init"      -> InitJob(A(1))
    [] E.op = "readsp"    -> ReadSp(A(1))
    [] E.op = "remove"    -> Remove(A(1))
    [] E.op = "setkey"    -> SetKey(A(1), A(2), A(3))
    [] E.op = "sp_pop"    -> SpPop(A(1), A(2))
    [] E.op = "sp_setdefault" -> SpSetDefault(A(1), A(2), A(3))
    [] E.op = "sp_update" -> SpUpdate(A(1), A(2))
    [] E.op = "sp_clear"  -> SpClear(A(1))
    [] E.op = "assign"    -> AssignSp(A(1), A(2))
    [] E.op = "update_sp" -> UpdateSp(A(1), A(2), A(3), A(4))
    [] E.op = "docset"    -> DocSet(A(1), A(2))
    [] E.op = "writefile" -> WriteFile(A(1), A(2), A(3))
    [] E.op = "clear"     -> Clear(A(1))
    [] E.op = "reset"     -> Reset(A(1))
    [] E.op = "move"      -> Move(A(1), A(2))
    [] E.op = "clone"     -> Clone(A(1), A(2), A(3))
    [] E.op = "copy"      -> CopyHandle(A(1), A(2))
    [] E.op = "update_cache" -> UpdateCache(A(1))
    [] E.op = "delete_cache" -> DeleteCache(A(1))
    [] E.op = "restart"   -> /\ h' = [x \in Handles |-> DeadHandle] /\ glast' = [x \in Handles |-> x]
                             /\ mem' = [p \in Projects |-> <<>>] /\ memRead' = [p \in Projects |-> FALSE]
                             /\ UNCHANGED <<ws, cacheEx, cacheF, strays, locks, tainted>> /\ Obs("restart", <<>>, "ok")
    [] E.op = "stray"     -> AddStray(A(1), A(2))
    [] E.op = "mkdir_empty" -> MkDir(A(1), A(2))
    [] E.op = "corrupt"   -> Corrupt(A(1), A(2), A(3))
    [] E.op = "corrupt_other" -> CorruptOther(A(1), A(2), A(3))
    [] E.op = "rename_dir" -> RenameDir(A(1), A(2), A(3))
    [] E.op = "check"     -> Check(A(1))
    [] E.op = "repair"    -> Repair(A(1))

(* the logged observation must equal the specification's next state *)
ToSet(s) == {s[i] : i \in 1..Len(s)}
FilesOf(fl) == [n \in {fl[i][1] : i \in 1..Len(fl)} |-> (CHOOSE i \in 1..Len(fl) : fl[i][1] = n) ]
LoggedFiles(fl) == [n \in {fl[i][1] : i \in 1..Len(fl)} |-> fl[(CHOOSE i \in 1..Len(fl) : fl[i][1] = n)][2]]
MatchProject(p) ==
  LET lg == E.obs[p] IN
  /\ DOMAIN ws'[p] = {lg.ws[i].id : i \in 1..Len(lg.ws)}
  /\ \A i \in 1..Len(lg.ws) :
       LET r == lg.ws[i]  s == ws'[p][r.id] IN
       /\ s.spk = r.spk /\ (r.spk = "ok" => s.spv = r.spv) /\ s.doc = r.doc
       /\ s.files = LoggedFiles(r.files)
  /\ cacheEx'[p] = lg.cacheEx
  /\ (lg.cacheEx => /\ DOMAIN cacheF'[p] = {lg.cache[i][1] : i \in 1..Len(lg.cache)}
                    /\ \A i \in 1..Len(lg.cache) : cacheF'[p][lg.cache[i][1]] = lg.cache[i][2])
  /\ strays'[p] = ToSet(lg.strays)
MatchDisk  == \A p \in Projects : MatchProject(p)
MatchOther ==
  /\ last'.res = E.res
  /\ last'.val = ToSet(E.val)
  /\ \A p \in Projects : DOMAIN mem'[p] = ToSet(E.obs[p].mem)
  /\ \A x \in Handles : h'[x].live = E.hlive[x] /\ (h'[x].live => (h'[x].id = E.hid[x] /\ h'[x].proj = E.hproj[x]))

TrNext == /\ l <= Len(Ev) /\ bad = "none" /\ Act /\ l' = l + 1 /\ UNCHANGED tid
          /\ bad' = IF ~MatchDisk THEN "disk" ELSE IF ~MatchOther THEN "other" ELSE "none"
\* progress register: events explained so far; kind register: why the next one was not
Track  == IF bad = "none" THEN TLCSet(tid, IF TLCGet(tid) < l THEN l ELSE TLCGet(tid))
          ELSE TLCSet(NT + tid, bad)
Post   == \A i \in 1..NT :
            \/ TLCGet(i) = Len(Traces[i].ev) + 1
            \/ PrintT(<<"REJECTED", i, "matched", TLCGet(i) - 1, "of", Len(Traces[i].ev), "kind", TLCGet(NT + i)>>)
\* requirement invariants evaluated on every state of every validated real execution
TraceHashInvX    == HashInvX
TraceCheckX      == CheckPassesX
=============================================================================

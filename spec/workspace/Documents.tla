----------------------------- MODULE Documents -----------------------------
(* C05: job and project documents are faithful persistent dicts; buffering is transparent.

   Files = job documents of 1..3 jobs + the project document.  A handle <<f, i>> is the i-th
   independent Python object (Job / Project) on the directory of f, each with its own document object.

   The ACTIONS are written like the code (signac -> synced_collections BufferedJSONAttrDict):
     * every document object has an in-memory copy mem[h]; an operation is  load ; mutate ; save
       (clear and reset do NOT load; a mutation that raises still saves);
     * load merges the loaded data INTO the in-memory copy (SyncedDict._update): keys that exist keep
       their position; a missing file leaves the copy as it is;
     * inside signac.buffered() load/save go to a class level buffer  file -> [contents, hash of the
       original text]; the first access in a block caches the file; the capacity counts the BYTES of
       all cached contents (read-only entries included); when it is exceeded (after a load or a save,
       or when a smaller capacity is set on entering / leaving a block) and when the outermost block
       exits, every registered document object is flushed in reverse order of registration; the FIRST
       flushed object of a file decides, by comparing the text of ITS OWN in-memory copy with the
       original text, whether the cached contents are written; the entry is then deleted;
     * key order is modelled (values are ordered: a mapping is a sequence of <<key, value>> pairs,
       the wire format of harness/jsonenc.py) because the text comparison above depends on it.
   Named deviations of the pinned code from the requirements (each has a flag; FALSE = as the code;
   the driver probes the real behaviour once and sets the flags):
     D1  a flush is decided by the flushing object's OWN copy: a handle that only read (and was
         registered last) discards another handle's buffered write;
     D2  _update keeps an existing value that is Python-equal (==) to the new one: 1 / 1.0 / True are
         never exchanged by reset / update / a load through a stale handle;
     D3  _update keeps a nested mapping / list when the new value is None (child._update(None) is a no-op);
     D4  a missing file leaves a stale in-memory copy (visible after a buffered block whose writes
         cancelled out before any file existed).
   Calibrated rule R1 (documentation silent, never flagged): pop(k) of an absent key returns None.
   The REQUIREMENTS are the property's: Faithful, ReadOwnWrites, OtherHandleSees, BufferTransparent,
   stated against the ghost ideal[f] = the plain dict the same operations produce.
   With FixedD1 = ... = FixedD4 = TRUE (a repaired dependency) TLC proves them on the bounded model; with
   the flags as probed on the real code TLC produces the shortest counterexamples, which the driver
   replays on the real code (DESIGN 2.6).  The labelled state graph (-dump dot; every state carries the
   observation `last`) is what the driver replays edge by edge. *)
EXTENDS JsonValue, TLC

CONSTANTS Files,        \* set of strings
          JobFiles,     \* subset of Files: job documents (Remove / Rekey apply)
          NHJob, NHProj,\* handles per job file / per project file
          Ops,          \* enabled operation names (slices of the model)
          Vals,         \* values written by set / setdefault / pop default
          NVals,        \* values written by nested set / list append / list set
          MapArgs,      \* arguments of update() and of the whole reset
          Caps,         \* capacities offered to EnterBuffered: records [has, c]
          MaxNest,      \* nesting depth of buffered blocks
          DefaultCap,   \* the dependency's default capacity (bytes)
          FixedD1, FixedD2, FixedD3, FixedD4,   \* FALSE = as the code (deviation present)
          MaxLevel,           \* bound on the number of actions + 1 in exhaustive runs (level 1 = initial state)
          PopAbsentNone       \* calibrated rule R1: pop(k) of an absent key returns None (TRUE = as the code)

VARIABLES disk,     \* f -> [ex, v]            the JSON file (raw)
          ideal,    \* f -> value              ghost: the plain dict
          open,     \* h -> BOOLEAN            the handle has created its document object
          mem,      \* h -> value              that object's in-memory copy (_data)
          buf,      \* f -> [in, contents, orig, snap]   class level buffer entry
          reg,      \* sequence of [h, dead]   _buffered_collections in insertion order (dead: the document object was
                    \*                         dropped by remove() inside a block; it stays registered with an empty copy)
          depth, cap, capStack,
          dirs,     \* set of job files whose job directory exists (Job.clear() is a no-op on a job that was never initialised)
          writers,  \* f -> set of handles that wrote f inside the current outermost block (ghost)
          dev,      \* set of deviations that fired in this behaviour (ghost; "D1", "D2")
          last,     \* observation: [op, h, k, k2, i, form, v, res]
          steps     \* number of actions taken (bounds the exhaustive runs exactly, whatever the number of TLC workers)
vars == <<disk, ideal, open, mem, buf, reg, depth, cap, capStack, dirs, writers, dev, last, steps>>

Handles == {<<f, i>> : f \in Files, i \in 1..(IF NHJob > NHProj THEN NHJob ELSE NHProj)}
LiveHandles == {h \in Handles : h[2] <= (IF h[1] \in JobFiles THEN NHJob ELSE NHProj)}
HandlesOf(f) == {h \in LiveHandles : h[1] = f}
FileSeq == SetToSeq(Files)

---------------------------------------------------------------------------
(* ordered JSON values: the wire format; a mapping is a sequence of <<key, value>> pairs *)
OMap(s)   == [JNull EXCEPT !.t = "map", !.m = s]
EmptyDoc  == OMap(<<>>)
KeysOf(v) == {v.m[i][1] : i \in 1..Len(v.m)}
Has(v, k) == v.t = "map" /\ k \in KeysOf(v)
Idx(v, k) == CHOOSE i \in 1..Len(v.m) : v.m[i][1] = k
Get(v, k) == v.m[Idx(v, k)][2]
Put(v, k, x) == IF Has(v, k) THEN [v EXCEPT !.m[Idx(v, k)] = <<k, x>>] ELSE [v EXCEPT !.m = Append(@, <<k, x>>)]
RECURSIVE PairsIn(_, _, _)    \* the pairs of ps whose key is (keep = TRUE) / is not (keep = FALSE) in K, order preserved
PairsIn(ps, K, keep) == IF ps = <<>> THEN <<>>
                        ELSE IF (Head(ps)[1] \in K) = keep THEN <<Head(ps)>> \o PairsIn(Tail(ps), K, keep)
                        ELSE PairsIn(Tail(ps), K, keep)
Del(v, k) == [v EXCEPT !.m = PairsIn(@, {k}, FALSE)]
RECURSIVE PutAll(_, _)
PutAll(v, ps) == IF ps = <<>> THEN v ELSE PutAll(Put(v, Head(ps)[1], Head(ps)[2]), Tail(ps))

RECURSIVE JEq(_, _)          \* JSON equality: type exact, key order ignored
JEq(x, y) == IF x.t # y.t THEN FALSE
             ELSE IF x.t = "list" THEN Len(x.l) = Len(y.l) /\ \A i \in 1..Len(x.l) : JEq(x.l[i], y.l[i])
             ELSE IF x.t = "map" THEN KeysOf(x) = KeysOf(y) /\ \A k \in KeysOf(x) : JEq(Get(x, k), Get(y, k))
             ELSE x = y

RECURSIVE Digits(_)
Digits(k) == IF k < 10 THEN <<48 + k>> ELSE Digits(k \div 10) \o <<48 + (k % 10)>>
IntText(k) == IF k < 0 THEN <<45>> \o Digits(0 - k) ELSE Digits(k)
\* numeric identity of a Python scalar as text (trusted base: a float whose repr is "<int>.0" equals that
\* integer; floats in exponent form never equal a generated integer - guard of the value generators)
NumKey(v) == CASE v.t = "bool" -> IF v.b THEN <<49>> ELSE <<48>>
               [] v.t = "int"  -> IntText(v.n)
               [] v.t = "big"  -> v.a
               [] v.t = "flt"  -> LET n == Len(v.a) IN
                                  IF n >= 3 /\ v.a[n] = 48 /\ v.a[n - 1] = 46 /\ \A i \in 1..n : v.a[i] # 101
                                  THEN LET p == SubSeq(v.a, 1, n - 2) IN IF p = <<45, 48>> THEN <<48>> ELSE p
                                  ELSE <<102>> \o v.a
IsNum(v) == v.t \in {"bool", "int", "big", "flt"}
RECURSIVE PyEq(_, _)         \* Python ==
PyEq(x, y) == IF IsNum(x) /\ IsNum(y) THEN NumKey(x) = NumKey(y)
              ELSE IF x.t # y.t THEN FALSE
              ELSE IF x.t = "list" THEN Len(x.l) = Len(y.l) /\ \A i \in 1..Len(x.l) : PyEq(x.l[i], y.l[i])
              ELSE IF x.t = "map" THEN KeysOf(x) = KeysOf(y) /\ \A k \in KeysOf(x) : PyEq(Get(x, k), Get(y, k))
              ELSE x = y
\* DEVIATION D2: _update keeps the existing value when `new == existing` (1 == 1.0 == True);
\* the repaired rule keeps it only when it is the same JSON value.
Same(n, o) == IF FixedD2 THEN JEq(n, o) ELSE PyEq(n, o)

RECURSIVE MergeVal(_, _), MergeMap(_, _), MergeList(_, _)
MergeVal(o, n) == IF Same(n, o) THEN o
                  ELSE IF ~FixedD3 /\ n.t = "null" /\ o.t \in {"map", "list"} THEN o   \* DEVIATION D3: child._update(None) is a no-op
                  ELSE IF o.t = "map" /\ n.t = "map" THEN MergeMap(o, n)
                  ELSE IF o.t = "list" /\ n.t = "list" THEN MergeList(o, n)
                  ELSE n
\* SyncedDict._update: existing keys keep their position, new keys are appended in the order of the data
MergeMap(o, n) == LET kept  == PairsIn(o.m, KeysOf(n), TRUE)
                      added == PairsIn(n.m, KeysOf(o), FALSE)
                  IN [o EXCEPT !.m = [i \in 1..Len(kept) |-> <<kept[i][1], MergeVal(kept[i][2], Get(n, kept[i][1]))>>] \o added]
MergeList(o, n) == LET k == IF Len(o.l) < Len(n.l) THEN Len(o.l) ELSE Len(n.l) IN
                   [o EXCEPT !.l = [i \in 1..k |-> MergeVal(o.l[i], n.l[i])] \o SubSeq(n.l, k + 1, Len(n.l))]

\* which deviations make _update(n) on the copy o lose information (ghost, for attribution)
RECURSIVE LossKinds(_, _)
LossKinds(o, n) == IF JEq(o, n) THEN {}
                   ELSE IF Same(n, o) THEN {"D2"}
                   ELSE IF ~FixedD3 /\ n.t = "null" /\ o.t \in {"map", "list"} THEN {"D3"}
                   ELSE IF o.t = "map" /\ n.t = "map" THEN UNION {LossKinds(Get(o, k), Get(n, k)) : k \in KeysOf(o) \cap KeysOf(n)}
                   ELSE IF o.t = "list" /\ n.t = "list"
                        THEN UNION {LossKinds(o.l[i], n.l[i]) : i \in 1..(IF Len(o.l) < Len(n.l) THEN Len(o.l) ELSE Len(n.l))}
                   ELSE {}
TopLoss(o, n) == UNION {LossKinds(Get(o, k), Get(n, k)) : k \in KeysOf(o) \cap KeysOf(n)}

\* byte length of json.dumps(v) (default separators, ensure_ascii) - what the buffer capacity counts
RECURSIVE SeqSum(_)
SeqSum(s) == IF s = <<>> THEN 0 ELSE Head(s) + SeqSum(Tail(s))
EscLen(c) == IF c = 34 \/ c = 92 \/ c = 10 \/ c = 13 \/ c = 9 \/ c = 8 \/ c = 12 THEN 2
             ELSE IF c < 32 \/ (c > 126 /\ c < 65536) THEN 6 ELSE IF c >= 65536 THEN 12 ELSE 1
StrLen(a) == 2 + SeqSum([i \in 1..Len(a) |-> EscLen(a[i])])
RECURSIVE JsonLen(_)
JsonLen(v) == CASE v.t = "null" -> 4
                [] v.t = "bool" -> IF v.b THEN 4 ELSE 5
                [] v.t = "int"  -> Len(IntText(v.n))
                [] v.t = "big"  -> Len(v.a)
                [] v.t = "flt"  -> Len(v.a)
                [] v.t = "str"  -> StrLen(v.a)
                [] v.t = "list" -> IF v.l = <<>> THEN 2 ELSE 2 * Len(v.l) + SeqSum([i \in 1..Len(v.l) |-> JsonLen(v.l[i])])
                [] v.t = "map"  -> IF v.m = <<>> THEN 2
                                   ELSE 2 * Len(v.m) + SeqSum([i \in 1..Len(v.m) |-> StrLen(v.m[i][1]) + 2 + JsonLen(v.m[i][2])])

---------------------------------------------------------------------------
(* the code's load / save / flush as transformers of  st = [disk, mem, buf, reg, dev] *)
Absent  == [ex |-> FALSE, v |-> EmptyDoc]
NoEntry == [in |-> FALSE, contents |-> EmptyDoc, orig |-> JNull, snap |-> Absent]
NoH     == <<"", 0>>
NoK     == <<>>
ROk(v)  == [exc |-> "", v |-> v]
RExc(e) == [exc |-> e, v |-> JNull]

St == [disk |-> disk, mem |-> mem, buf |-> buf, reg |-> reg, dev |-> dev]
BufSize(b) == SeqSum([i \in 1..Len(FileSeq) |-> IF b[FileSeq[i]].in THEN JsonLen(b[FileSeq[i]].contents) ELSE 0])
Live(h) == [h |-> h, dead |-> FALSE]
InSeq(s, x) == \E i \in 1..Len(s) : s[i] = x
Register(st, h) == IF InSeq(st.reg, Live(h)) THEN st ELSE [st EXCEPT !.reg = Append(@, Live(h))]
\* mem[h] := _update(data)
MergeInto(st, h, data) == LET r == MergeMap(st.mem[h], data) IN
                          [st EXCEPT !.mem[h] = r, !.dev = @ \cup TopLoss(st.mem[h], data)]

\* SerializedFileBufferedCollection._flush of one document object
FlushOne(st, r) ==
  LET h == r.h  f == h[1]  e == st.buf[f]
      own == IF r.dead THEN EmptyDoc ELSE st.mem[h] IN    \* a dropped object was cleared by remove()
  IF ~e.in THEN st                                       \* another object of the same file flushed first
  ELSE LET differs == IF FixedD1 THEN e.contents # e.orig    \* repaired: decide by the cached contents
                      ELSE own # e.orig                      \* DEVIATION D1: decides by ITS OWN copy
       IN IF differs
          THEN LET merged == MergeMap(own, e.contents) IN
               [st EXCEPT !.mem[h] = IF r.dead THEN @ ELSE merged, !.dev = @ \cup TopLoss(own, e.contents),
                          !.disk[f] = [ex |-> TRUE, v |-> merged], !.buf[f] = NoEntry]
          ELSE [st EXCEPT !.buf[f] = NoEntry,
                          !.dev = IF e.contents # e.orig /\ ~(e.orig.t = "map" /\ JEq(e.contents, e.orig)) THEN @ \cup {"D1"} ELSE @]
RECURSIVE FlushSeq(_, _)
FlushSeq(st, hs) == IF hs = <<>> THEN st ELSE FlushSeq(FlushOne(st, Head(hs)), Tail(hs))
FlushAll(st) == [FlushSeq(st, Reverse(st.reg)) EXCEPT !.reg = <<>>]     \* popitem(): last registered first

\* DEVIATION D4: a missing file leaves the in-memory copy as it is (stale data survive: the backend reads
\* ENOENT as "no change"); the repaired rule reads a missing file as the empty document.
LoadMissing(st, h) == IF FixedD4 THEN [st EXCEPT !.mem[h] = EmptyDoc]
                      ELSE [st EXCEPT !.dev = IF st.mem[h] # EmptyDoc THEN @ \cup {"D4"} ELSE @]
Load(st, h) ==
  LET f == h[1] IN
  IF depth = 0
  THEN IF st.disk[f].ex THEN MergeInto(st, h, st.disk[f].v) ELSE LoadMissing(st, h)
  ELSE LET s1 == IF st.buf[f].in THEN st
                 ELSE LET s0 == IF st.disk[f].ex THEN MergeInto(st, h, st.disk[f].v) ELSE LoadMissing(st, h) IN
                      [s0 EXCEPT !.buf[f] = [in |-> TRUE, contents |-> s0.mem[h], orig |-> s0.mem[h], snap |-> s0.disk[f]]]
           s2 == Register(s1, h)
           blob == s2.buf[f].contents
           s3 == IF BufSize(s2.buf) > cap THEN FlushAll(s2) ELSE s2
       IN MergeInto(s3, h, blob)

SavePre(st, h) ==                \* _save_to_buffer up to (not including) the capacity check
  LET f == h[1]  s1 == Register(st, h) IN
  IF s1.buf[f].in THEN [s1 EXCEPT !.buf[f].contents = s1.mem[h]]
  ELSE [s1 EXCEPT !.buf[f] = [in |-> TRUE, contents |-> s1.mem[h],
                              orig |-> IF s1.disk[f].ex THEN s1.disk[f].v ELSE JNull, snap |-> s1.disk[f]]]
Save(st, h) ==
  LET f == h[1] IN
  IF depth = 0
  THEN [st EXCEPT !.disk[f] = [ex |-> TRUE, v |-> st.mem[h]]]
  ELSE LET s2 == SavePre(st, h) IN IF BufSize(s2.buf) > cap THEN FlushAll(s2) ELSE s2

SetMem(st, h, v) == [st EXCEPT !.mem[h] = v]

---------------------------------------------------------------------------
(* frames *)
Obs(op, h, k, k2, i, form, v, res) ==
  last' = [op |-> op, h |-> h, k |-> k, k2 |-> k2, i |-> i, form |-> form, v |-> v, res |-> res]
Apply(st, h) == /\ disk' = st.disk /\ mem' = st.mem /\ buf' = st.buf /\ reg' = st.reg /\ dev' = st.dev
                /\ open' = [open EXCEPT ![h] = TRUE]
                /\ dirs' = dirs \cup {h[1]}                  \* a document access initialises the job
                /\ UNCHANGED <<depth, cap, capStack>>
Wrote(h)   == writers' = IF depth > 0 THEN [writers EXCEPT ![h[1]] = @ \cup {h}] ELSE writers
IdealIs(f, v) == ideal' = [ideal EXCEPT ![f] = v]

(* mapping operations through handle h; I == ideal[h[1]] *)
SetItem(h, k, v) ==           \* doc[k] = v   /  doc.k = v  (spelling chosen by the harness)
  LET s1 == Load(St, h)  s2 == Save(SetMem(s1, h, Put(s1.mem[h], k, v)), h) IN
  /\ Apply(s2, h) /\ IdealIs(h[1], Put(ideal[h[1]], k, v)) /\ Wrote(h)
  /\ Obs("set", h, k, NoK, 0, "", v, ROk(JNull))

SetBadKey(h, k, v) ==         \* a key with a dot is rejected before anything is loaded
  /\ Apply(St, h) /\ UNCHANGED <<ideal, writers>> /\ Obs("setbad", h, k, NoK, 0, "", v, RExc("InvalidKeyError"))

DelItem(h, k) ==              \* del doc[k]  /  del doc.k ; a failing delete still saves
  LET s1 == Load(St, h)  ok == Has(s1.mem[h], k)
      s2 == Save(IF ok THEN SetMem(s1, h, Del(s1.mem[h], k)) ELSE s1, h) IN
  /\ Apply(s2, h) /\ Wrote(h)
  /\ IdealIs(h[1], IF Has(ideal[h[1]], k) THEN Del(ideal[h[1]], k) ELSE ideal[h[1]])
  /\ Obs("del", h, k, NoK, 0, "", JNull, IF ok THEN ROk(JNull) ELSE RExc("KeyError"))

Update(h, d) ==               \* doc.update(d): _update({**_data, **d})
  LET s1 == Load(St, h)
      s2 == MergeInto(s1, h, PutAll(s1.mem[h], d.m))
      s3 == Save(s2, h) IN
  /\ Apply(s3, h) /\ IdealIs(h[1], PutAll(ideal[h[1]], d.m)) /\ Wrote(h)
  /\ Obs("update", h, NoK, NoK, 0, "", d, ROk(JNull))

SetDefault(h, k, v) ==
  LET s1 == Load(St, h)  has == Has(s1.mem[h], k)
      s2 == Save(IF has THEN s1 ELSE SetMem(s1, h, Put(s1.mem[h], k, v)), h) IN
  /\ Apply(s2, h) /\ Wrote(h)
  /\ IdealIs(h[1], IF Has(ideal[h[1]], k) THEN ideal[h[1]] ELSE Put(ideal[h[1]], k, v))
  /\ Obs("setdefault", h, k, NoK, 0, "", v, ROk(IF has THEN Get(s1.mem[h], k) ELSE v))

Pop(h, k, form, dflt) ==      \* form "nodefault": doc.pop(k) ; "default": doc.pop(k, dflt)
  LET s1 == Load(St, h)  has == Has(s1.mem[h], k)
      s2 == Save(IF has THEN SetMem(s1, h, Del(s1.mem[h], k)) ELSE s1, h) IN
  /\ Apply(s2, h) /\ Wrote(h)
  /\ IdealIs(h[1], IF Has(ideal[h[1]], k) THEN Del(ideal[h[1]], k) ELSE ideal[h[1]])
  /\ Obs("pop", h, k, NoK, 0, form, dflt,
         IF has THEN ROk(Get(s1.mem[h], k))
         ELSE IF form = "default" THEN ROk(dflt)
         ELSE IF PopAbsentNone THEN ROk(JNull) ELSE RExc("KeyError"))     \* calibrated rule R1

Clear(h) ==                   \* no load
  LET s2 == Save(SetMem(St, h, EmptyDoc), h) IN
  /\ Apply(s2, h) /\ IdealIs(h[1], EmptyDoc) /\ Wrote(h)
  /\ Obs("clear", h, NoK, NoK, 0, "", JNull, ROk(JNull))

Reset(h, d) ==                \* job.doc = d  /  doc.reset(d): _update(d) on the (possibly stale) copy, no load
  LET s2 == Save(MergeInto(St, h, d), h) IN
  /\ Apply(s2, h) /\ IdealIs(h[1], d) /\ Wrote(h)
  /\ Obs("reset", h, NoK, NoK, 0, "", d, ROk(JNull))

NestedSet(h, k, k2, form, v) ==   \* doc[k][k2] = v ("item")  /  doc.k.k2 = v ("attr")
  LET s1 == Load(St, h)  f == h[1]  I == ideal[f] IN
  IF ~Has(s1.mem[h], k)
  THEN /\ Apply(s1, h) /\ UNCHANGED <<ideal, writers>>
       /\ Obs("nset", h, k, k2, 0, form, v, RExc(IF form = "attr" THEN "AttributeError" ELSE "KeyError"))
  ELSE IF Get(s1.mem[h], k).t = "list"
  THEN IF form = "attr"                          \* a plain Python attribute on the list object: no error, no effect
       THEN /\ Apply(s1, h) /\ UNCHANGED <<ideal, writers>> /\ Obs("nset", h, k, k2, 0, form, v, ROk(JNull))
       ELSE /\ Apply(Save(Load(s1, h), h), h) /\ Wrote(h) /\ UNCHANGED ideal   \* list[str] = v: load, TypeError, save
            /\ Obs("nset", h, k, k2, 0, form, v, RExc("TypeError"))
  ELSE IF Get(s1.mem[h], k).t # "map"
  THEN /\ Apply(s1, h) /\ UNCHANGED <<ideal, writers>>
       /\ Obs("nset", h, k, k2, 0, form, v, RExc(IF form = "attr" THEN "AttributeError" ELSE "TypeError"))
  ELSE LET s2 == Load(s1, h)                    \* the child loads again through its root
           s3 == Save(SetMem(s2, h, Put(s2.mem[h], k, Put(Get(s2.mem[h], k), k2, v))), h) IN
       /\ Apply(s3, h) /\ Wrote(h)
       /\ IdealIs(f, IF Has(I, k) /\ Get(I, k).t = "map" THEN Put(I, k, Put(Get(I, k), k2, v)) ELSE I)
       /\ Obs("nset", h, k, k2, 0, form, v, ROk(JNull))

ListAppend(h, k, v) ==        \* doc[k].append(v)
  LET s1 == Load(St, h)  f == h[1]  I == ideal[f] IN
  IF ~Has(s1.mem[h], k)
  THEN /\ Apply(s1, h) /\ UNCHANGED <<ideal, writers>> /\ Obs("append", h, k, NoK, 0, "", v, RExc("KeyError"))
  ELSE IF Get(s1.mem[h], k).t = "map"
  THEN /\ Apply(Load(s1, h), h) /\ UNCHANGED <<ideal, writers>>       \* attribute lookup 'append' on the child mapping loads again
       /\ Obs("append", h, k, NoK, 0, "", v, RExc("AttributeError"))
  ELSE IF Get(s1.mem[h], k).t # "list"
  THEN /\ Apply(s1, h) /\ UNCHANGED <<ideal, writers>> /\ Obs("append", h, k, NoK, 0, "", v, RExc("AttributeError"))
  ELSE LET s2 == Load(s1, h)
           old == Get(s2.mem[h], k)
           s3 == Save(SetMem(s2, h, Put(s2.mem[h], k, [old EXCEPT !.l = Append(@, v)])), h) IN
       /\ Apply(s3, h) /\ Wrote(h)
       /\ IdealIs(f, IF Has(I, k) /\ Get(I, k).t = "list" THEN Put(I, k, [Get(I, k) EXCEPT !.l = Append(@, v)]) ELSE I)
       /\ Obs("append", h, k, NoK, 0, "", v, ROk(JNull))

ListSet(h, k, i, v) ==        \* doc[k][i] = v   (i is 0-based)
  LET s1 == Load(St, h)  f == h[1]  I == ideal[f] IN
  IF ~Has(s1.mem[h], k)
  THEN /\ Apply(s1, h) /\ UNCHANGED <<ideal, writers>> /\ Obs("lset", h, k, NoK, i, "", v, RExc("KeyError"))
  ELSE IF Get(s1.mem[h], k).t = "map"
  THEN /\ Apply(s1, h) /\ UNCHANGED <<ideal, writers>> /\ Obs("lset", h, k, NoK, i, "", v, RExc("KeyTypeError"))
  ELSE IF Get(s1.mem[h], k).t # "list"
  THEN /\ Apply(s1, h) /\ UNCHANGED <<ideal, writers>> /\ Obs("lset", h, k, NoK, i, "", v, RExc("TypeError"))
  ELSE LET s2 == Load(s1, h)
           old == Get(s2.mem[h], k)
           ok  == i < Len(old.l)
           s3 == Save(IF ok THEN SetMem(s2, h, Put(s2.mem[h], k, [old EXCEPT !.l[i + 1] = v])) ELSE s2, h) IN
       /\ Apply(s3, h) /\ Wrote(h)
       /\ IdealIs(f, IF Has(I, k) /\ Get(I, k).t = "list" /\ i < Len(Get(I, k).l)
                     THEN Put(I, k, [Get(I, k) EXCEPT !.l[i + 1] = v]) ELSE I)
       /\ Obs("lset", h, k, NoK, i, "", v, IF ok THEN ROk(JNull) ELSE RExc("IndexError"))

ReadVal(h) == Load([St EXCEPT !.mem[h] = IF open[h] THEN @ ELSE EmptyDoc], h).mem[h]   \* what doc() through h returns now
Read(h) ==                    \* doc()
  LET s1 == Load(St, h) IN
  /\ Apply(s1, h) /\ UNCHANGED <<ideal, writers>> /\ Obs("read", h, NoK, NoK, 0, "", JNull, ROk(s1.mem[h]))

GetItem(h, k, form) ==        \* doc[k] ("item") / doc.k ("attr") / doc.get(k) ("get") / k in doc ("in")
  LET s1 == Load(St, h)  has == Has(s1.mem[h], k) IN
  /\ Apply(s1, h) /\ UNCHANGED <<ideal, writers>>
  /\ Obs("get", h, k, NoK, 0, form, JNull,
         IF form = "in" THEN ROk(JBool(has))
         ELSE IF has THEN ROk(Get(s1.mem[h], k))
         ELSE IF form = "get" THEN ROk(JNull)
         ELSE RExc(IF form = "attr" THEN "AttributeError" ELSE "KeyError"))

(* buffered blocks: signac.buffered(buffer_capacity=c) *)
EnterBuffered(c) ==
  /\ depth < MaxNest
  /\ depth' = depth + 1
  /\ capStack' = Append(capStack, IF c.has THEN [has |-> TRUE, c |-> cap] ELSE [has |-> FALSE, c |-> 0])
  /\ cap' = IF c.has THEN c.c ELSE cap
  /\ LET s == IF c.has /\ c.c < BufSize(buf) THEN FlushAll(St) ELSE St IN     \* set_buffer_capacity forces a flush
     /\ disk' = s.disk /\ mem' = s.mem /\ buf' = s.buf /\ reg' = s.reg /\ dev' = s.dev
  /\ UNCHANGED <<ideal, open, writers, dirs>>
  /\ Obs("enter", NoH, NoK, NoK, IF c.has THEN c.c ELSE 0, IF c.has THEN "cap" ELSE "", JNull, ROk(JNull))

ExitBuffered ==
  /\ depth > 0
  /\ depth' = depth - 1
  /\ LET top == capStack[Len(capStack)]
         s1 == IF depth = 1 THEN FlushAll(St) ELSE St                         \* only the outermost exit flushes
         s2 == IF top.has /\ top.c < BufSize(s1.buf) THEN FlushAll(s1) ELSE s1 \* restoring a smaller capacity
     IN /\ disk' = s2.disk /\ mem' = s2.mem /\ buf' = s2.buf /\ reg' = s2.reg /\ dev' = s2.dev
        /\ cap' = IF top.has THEN top.c ELSE cap
        /\ capStack' = SubSeq(capStack, 1, Len(capStack) - 1)
  /\ writers' = IF depth = 1 THEN [f \in Files |-> {}] ELSE writers
  /\ UNCHANGED <<ideal, open, dirs>>
  /\ Obs("exit", NoH, NoK, NoK, 0, "", JNull, ROk(JNull))

(* life cycle of the job behind a job document (outside blocks only: removing or re-keying a job whose
   document is buffered is documented as unsupported).  The handle used keeps its Python object - the code
   must drop its document object; the other handles of the job are discarded and re-opened (guard: stale
   independent handles are the topic of C03/C04). *)
CloseAll(f) == /\ open' = [x \in Handles |-> IF x[1] = f THEN FALSE ELSE open[x]]
               /\ mem'  = [x \in Handles |-> IF x[1] = f THEN EmptyDoc ELSE mem[x]]
RemoveJob(h) ==                  \* job.remove(); the next document access re-initialises the job with an empty document
  /\ depth = 0 /\ h[1] \in JobFiles
  /\ disk' = [disk EXCEPT ![h[1]] = Absent] /\ IdealIs(h[1], EmptyDoc) /\ CloseAll(h[1])
  /\ dirs' = dirs \ {h[1]}
  /\ UNCHANGED <<buf, reg, depth, cap, capStack, writers, dev>>
  /\ Obs("remove", h, NoK, NoK, 0, "", JNull, ROk(JNull))
\* job.clear() / job.reset(): remove all job data but not the job.  The document is cleared THROUGH THE HANDLE'S
\* DOCUMENT OBJECT (mapping clear: no load, empty copy, save - to the file, or to the buffer inside a block), so every
\* other handle sees it; on a job whose directory does not exist clear() does nothing and reset() only initialises.
JobClear(h, op, init) ==
  LET f == h[1] IN
  /\ f \in JobFiles
  /\ IF f \in dirs
     THEN LET s2 == Save(SetMem(St, h, EmptyDoc), h) IN
          /\ disk' = s2.disk /\ mem' = s2.mem /\ buf' = s2.buf /\ reg' = s2.reg /\ dev' = s2.dev
          /\ open' = [open EXCEPT ![h] = TRUE] /\ Wrote(h)
     ELSE UNCHANGED <<disk, mem, buf, reg, dev, open, writers>>
  /\ dirs' = IF init THEN dirs \cup {f} ELSE dirs
  /\ IdealIs(f, EmptyDoc)
  /\ UNCHANGED <<depth, cap, capStack>>
  /\ Obs(op, h, NoK, NoK, 0, "", JNull, ROk(JNull))
ClearJob(h) == JobClear(h, "jclear", FALSE)
ResetJob(h) == JobClear(h, "jreset", TRUE)

\* job.remove(); job.init() INSIDE a block - supported by the code only while the document file is not on disk
\* (otherwise the flush raises MetadataError by design), no other handle of the job holds a document object
\* and the buffer is not at its capacity: remove() clears the document object INTO THE BUFFER before dropping it,
\* the dropped object stays registered (with its empty copy) until the next flush.
RemoveReinit(h) ==
  LET f == h[1]
      pre == SavePre(SetMem(St, h, EmptyDoc), h)
      s1 == IF open[h] THEN pre ELSE St
      s2 == [s1 EXCEPT !.reg = [i \in 1..Len(@) |-> IF @[i].h = h THEN [@[i] EXCEPT !.dead = TRUE] ELSE @[i]],
                       !.mem[h] = EmptyDoc]
  IN /\ depth > 0 /\ f \in JobFiles /\ ~disk[f].ex
     /\ \A x \in HandlesOf(f) \ {h} : ~open[x]
     /\ open[h] => BufSize(pre.buf) <= cap
     /\ disk' = s2.disk /\ mem' = s2.mem /\ buf' = s2.buf /\ reg' = s2.reg /\ dev' = s2.dev
     /\ open' = [open EXCEPT ![h] = FALSE]
     /\ IdealIs(f, EmptyDoc) /\ Wrote(h)
     /\ dirs' = dirs \cup {f}
     /\ UNCHANGED <<depth, cap, capStack>>
     /\ Obs("reinit", h, NoK, NoK, 0, "", JNull, ROk(JNull))
RekeyJob(h) ==                   \* job.sp.r = <new>: the directory moves, the document moves with it
  /\ depth = 0 /\ h[1] \in JobFiles
  /\ CloseAll(h[1])
  /\ UNCHANGED <<disk, ideal, buf, reg, depth, cap, capStack, dirs, writers, dev>>
  /\ Obs("rekey", h, NoK, NoK, 0, "", JNull, ROk(JNull))

---------------------------------------------------------------------------
Init == /\ disk = [f \in Files |-> Absent] /\ ideal = [f \in Files |-> EmptyDoc]
        /\ open = [h \in Handles |-> FALSE] /\ mem = [h \in Handles |-> EmptyDoc]
        /\ buf = [f \in Files |-> NoEntry] /\ reg = <<>>
        /\ depth = 0 /\ cap = DefaultCap /\ capStack = <<>> /\ dirs = {}
        /\ writers = [f \in Files |-> {}] /\ dev = {}
        /\ steps = 0
        /\ last = [op |-> "init", h |-> NoH, k |-> NoK, k2 |-> NoK, i |-> 0, form |-> "", v |-> JNull, res |-> ROk(JNull)]

KA == <<97>>
KB == <<98>>
KN == <<110>>      \* "n": the key that holds the nested mapping / the list
KC == <<99>>       \* nested key
KBad == <<97, 46, 98>>
DocKeys == {KA, KB}
NextOp ==
  \/ \E h \in LiveHandles :
       \/ "set" \in Ops /\ \E k \in DocKeys, v \in Vals : SetItem(h, k, v)
       \/ "set" \in Ops /\ "nset" \in Ops /\ \E v \in {x \in Vals : x.t \in {"map", "list"}} \cup {JInt(1)} : SetItem(h, KN, v)
       \/ "setbad" \in Ops /\ SetBadKey(h, KBad, JInt(1))
       \/ "del" \in Ops /\ \E k \in DocKeys : DelItem(h, k)
       \/ "update" \in Ops /\ \E d \in MapArgs : Update(h, d)
       \/ "setdefault" \in Ops /\ \E k \in DocKeys, v \in Vals : SetDefault(h, k, v)
       \/ "pop" \in Ops /\ \E k \in DocKeys : Pop(h, k, "nodefault", JNull) \/ Pop(h, k, "default", JInt(7))
       \/ "clear" \in Ops /\ Clear(h)
       \/ "reset" \in Ops /\ \E d \in MapArgs \cup {EmptyDoc} : Reset(h, d)
       \/ "nset" \in Ops /\ \E k \in {KN, KA}, v \in NVals, fm \in {"item", "attr"} : NestedSet(h, k, KC, fm, v)
       \/ "append" \in Ops /\ \E k \in {KN, KA}, v \in NVals : ListAppend(h, k, v)
       \/ "lset" \in Ops /\ \E k \in {KN, KA}, i \in {0, 1}, v \in NVals : ListSet(h, k, i, v)
       \/ "read" \in Ops /\ Read(h)
       \/ "get" \in Ops /\ \E k \in {KA}, fm \in {"item", "attr", "get", "in"} : GetItem(h, k, fm)
       \/ "remove" \in Ops /\ RemoveJob(h)
       \/ "rekey" \in Ops /\ RekeyJob(h)
       \/ "reinit" \in Ops /\ RemoveReinit(h)
       \/ "jclear" \in Ops /\ (ClearJob(h) \/ ResetJob(h))
  \/ "buffer" \in Ops /\ \E c \in Caps : EnterBuffered(c)
  \/ "buffer" \in Ops /\ ExitBuffered
Next == NextOp /\ steps' = steps + 1

Spec == Init /\ [][Next]_vars

---------------------------------------------------------------------------
(* REQUIREMENTS (C05) *)
DiskDoc(f) == IF disk[f].ex THEN disk[f].v ELSE EmptyDoc          \* a document never written = the empty dict
\* outside buffered blocks the JSON file equals the plain dict
Faithful == depth = 0 => \A f \in Files : JEq(DiskDoc(f), ideal[f])
\* inside a block a read through the (only) writing handle returns the plain dict
ReadOwnWrites == depth > 0 => \A h \in LiveHandles : (open[h] /\ writers[h[1]] \subseteq {h} /\ writers[h[1]] # {})
                                                      => JEq(ReadVal(h), ideal[h[1]])
\* outside blocks a read through any handle (used before or not) returns what is on disk
OtherHandleSees == depth = 0 => \A h \in LiveHandles : JEq(ReadVal(h), DiskDoc(h[1]))
\* the plain-dict result does not depend on where the blocks are (with Faithful at depth 0: neither do the files)
BufferTransparent == [][(last'.op \in {"enter", "exit"}) => ideal' = ideal]_vars
\* results of reads through the handle used equal the plain dict's answer (outside blocks)
ResultFaithful == (depth = 0 /\ last.op = "read") => JEq(last.res.v, ideal[last.h[1]])

\* the same two requirements stated on the read actually performed (counterexamples end with the offending read)
ReadOwnWritesObs == (depth > 0 /\ last.op = "read" /\ writers[last.h[1]] = {last.h}) => JEq(last.res.v, ideal[last.h[1]])
OtherHandleSeesObs == (depth = 0 /\ last.op = "read") => JEq(last.res.v, DiskDoc(last.h[1]))

(* facts about the mechanism that TLC proves on the model *)
TypeOK == /\ depth \in 0..MaxNest /\ Len(capStack) = depth
          /\ \A f \in Files : disk[f].v.t = "map" /\ ideal[f].t = "map"
OutsideNothingBuffered == depth = 0 => reg = <<>> /\ \A f \in Files : ~buf[f].in
\* the metadata check of a flush cannot fire: the file is unchanged since its entry was created
EntriesFresh == \A f \in Files : buf[f].in => buf[f].snap = disk[f]
EntriesRegistered == \A f \in Files : buf[f].in => \E i \in 1..Len(reg) : reg[i].h[1] = f
NoDeviation == dev = {}
\* deviations that a read through some handle would run into now (ghost, for attribution of OtherHandleSees / ReadOwnWrites)
HypoDev == UNION {IF depth > 0 /\ buf[h[1]].in THEN TopLoss(mem[h], buf[h[1]].contents)
                  ELSE IF disk[h[1]].ex THEN TopLoss(mem[h], disk[h[1]].v)
                  ELSE IF ~FixedD4 /\ mem[h] # EmptyDoc THEN {"D4"} ELSE {} : h \in {x \in LiveHandles : open[x]}}

\* level = steps + 1 (level 1 = initial state).  Proof runs: VIEW ProofView (any number of workers, exact).
\* Graph export: VIEW GraphView with ONE worker (breadth first: a state is kept with its smallest step count).
LevelBound == steps + 1 <= MaxLevel
ProofView == <<disk, ideal, open, mem, buf, reg, depth, cap, capStack, dirs, writers, dev, steps>>
GraphView == <<disk, ideal, open, mem, buf, reg, depth, cap, capStack, dirs, writers, dev, last>>

---------------------------------------------------------------------------
(* model-checking constants (cfg files cannot contain records) *)
I1 == JInt(1)
I2 == JInt(2)
F1 == JFlt(<<49, 46, 48>>)        \* 1.0
T1 == JBool(TRUE)
S1 == JStr(<<120>>)               \* "x"
L1 == JList(<<I1>>)               \* [1]
M1 == OMap(<<<<KC, I1>>>>)        \* {"c": 1}
VTypes   == {I1, F1, T1}
VStruct  == {I1, L1, M1}
VAll     == {I1, F1, T1, L1, M1}
VTwo     == {I1, I2}
VOne     == {I1}
VNone    == {JNull, M1, L1}
\* edits that are hard for weak fingerprints of the serialised text (equal length, equal byte sum, equal
\* position-weighted byte sum: Adler-32 / Fletcher collide): 121 -> 202, [0, 2, 0] -> [1, 0, 1]
I121 == JInt(121)
I202 == JInt(202)
L020 == JList(<<JInt(0), JInt(2), JInt(0)>>)
L101 == JList(<<JInt(1), JInt(0), JInt(1)>>)
VHard2 == {I121, I202}
VHard4 == {I121, I202, L020, L101}
NVTypes  == {I1, T1}
MapsSmall == {OMap(<<<<KA, I1>>>>), OMap(<<<<KB, F1>>, <<KA, T1>>>>)}
MapsTypes == {OMap(<<<<KA, v>>>>) : v \in VTypes} \cup {OMap(<<<<KB, I2>>, <<KA, F1>>>>), OMap(<<<<KN, M1>>>>)}
MapsNone == {OMap(<<<<KA, JNull>>>>), OMap(<<<<KA, M1>>, <<KB, L1>>>>)}
CapNone == [has |-> FALSE, c |-> 0]
CapsAll == {CapNone, [has |-> TRUE, c |-> 0], [has |-> TRUE, c |-> 1], [has |-> TRUE, c |-> 10]}
CapsTwo == {CapNone, [has |-> TRUE, c |-> 10]}
CapsNoneOnly == {CapNone}
CapsZero == {CapNone, [has |-> TRUE, c |-> 0]}
OpsAll  == {"set", "del", "update", "setdefault", "pop", "clear", "reset", "nset", "append", "lset", "read", "get",
            "setbad", "remove", "rekey", "reinit", "jclear", "buffer"}
OpsDict == OpsAll \ {"buffer", "remove", "rekey", "reinit", "jclear"}
OpsBuf  == {"set", "del", "clear", "reset", "read", "buffer"}
OpsBufN == {"set", "nset", "append", "update", "pop", "read", "buffer"}
OpsLife == {"set", "read", "remove", "rekey", "reinit", "jclear", "buffer"}
=============================================================================

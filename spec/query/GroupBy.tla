------------------------------ MODULE GroupBy ------------------------------
(* C07, second half: what a JobsCursor shows, and groupby.

   CursorView   a cursor over the id set S: len, iteration (some permutation of S), cursor[i], cursor[lo:hi:step],
                "job in cursor" all describe S - in whatever ORDER the operations are applied to one cursor object (TLC
                exports the operation scripts: all 24 orders of the blocks contains / len / iter / item).
                The iteration order is not specified, so the view is judged on
                recorded observations (CursorOK) - TLC decides every record (MODE = "cfile", CURSOR_IN).
   GroupBy      groupby(key[, default]) over the jobs Sel a cursor selects:
                  Sel' = the jobs of Sel that have every key (no default)  /  all of Sel (default given)
                  result = the partition of Sel' by (Python-)equality of the label, where a job's label is its OWN
                  value under the key (the default where it has none), a tuple of them for several keys, the job id for
                  key None, key(job) for a callable
                requirements: Disjoint, Covers, LabelIsOwnValue (checked by TLC on the specification's own result for
                every generated case (MODE = "group"), and on the recorded real result (MODE = "gfile", GROUP_IN))
   Conformant model of the code = GroupBy + the named deviations
     G1  nested keys: the key function strips the first dotted component whatever it is and then looks the rest
         up as ONE literal top-level key ("n.x" -> sp["x"], "sp.n.x" -> sp["n.x"], "doc.n.x" -> doc["n.x"])
     G2  for a tuple of keys the label lists all state point values first and all document values second,
         not in the order of the keys
   each removable by a constant (FixedG1, FixedG2); ImplMeetsReq is the requirement on the conformant model.
   Calibrated (documentation silent, pinned behaviour): CG1 a key that is present with value None is "present" and its
   label is None also when a default is given; CG2 labels are only generated where Python can sort them (all numbers
   or all strings, component-wise for tuples); CG3 groups never share a label (sorted + itertools.groupby). *)
EXTENDS Query

CONSTANTS FixedG1, FixedG2,
          NGCORP        \* number of sampled corpora (generator mode)

VARIABLES gkey, gdef
gvars == <<corpus, stack, gkey, gdef>>

-----------------------------------------------------------------------------
(* keys *)
\* a key as spelled by the caller: its dotted components, e.g. <<"sp","n","x">>, <<"n","x">>, <<"doc","x">>
KeyPath(comps) == IF Len(comps) >= 2 /\ Head(comps) \in {"sp", "doc"} THEN comps ELSE <<"sp">> \o comps
\* key descriptor: kind "str" (one key), "tuple" (several), "none", "call" (a callable, fn names it)
KStr(c)    == [kind |-> "str",   keys |-> <<c>>, fn |-> ""]
KTuple(cs) == [kind |-> "tuple", keys |-> cs,    fn |-> ""]
KNone      == [kind |-> "none",  keys |-> <<>>,  fn |-> ""]
KCall(fn, c) == [kind |-> "call", keys |-> <<c>>, fn |-> fn]   \* "getor0": lambda job: value at c or 0 ; "const": lambda job: 7
NoDefault == Abs
IdLabel(i) == [VBase EXCEPT !.t = "id", !.n = i]
LabelEq(a, b) == IF a.t = "id" \/ b.t = "id" THEN a.t = b.t /\ a.n = b.n ELSE PyEq(a, b)

Has(job, c) == ValueAt(job, KeyPath(c)) # Abs
KV(job, c, d) == IF Has(job, c) THEN ValueAt(job, KeyPath(c)) ELSE d           \* CG1
Selected(C, Sel, K, d) ==
  IF K.kind \in {"str", "tuple"} /\ d = NoDefault THEN {i \in Sel : \A q \in 1..Len(K.keys) : Has(C[i], K.keys[q])} ELSE Sel
Label(C, i, K, d) ==
  CASE K.kind = "str"   -> KV(C[i], K.keys[1], d)
    [] K.kind = "tuple" -> L([q \in 1..Len(K.keys) |-> KV(C[i], K.keys[q], d)])
    [] K.kind = "none"  -> IdLabel(i)
    [] K.fn = "getor0"  -> KV(C[i], K.keys[1], I(0))
    [] OTHER -> I(7)
\* a result: set of [label, members]
GroupBy(C, Sel, K, d) ==
  LET S2 == Selected(C, Sel, K, d)
      cls(i) == {j \in S2 : LabelEq(Label(C, j, K, d), Label(C, i, K, d))}
      rep(P) == CHOOSE i \in P : \A j \in P : i <= j
  IN {[label |-> Label(C, rep(P), K, d), members |-> P] : P \in {cls(i) : i \in S2}}

\* requirements, stated over an arbitrary result G so that they can be evaluated on recorded real output
Disjoint(G) == \A g, h \in G : g # h => g.members \cap h.members = {}
Covers(G, S2) == UNION {g.members : g \in G} = S2 /\ \A g \in G : g.members # {}
LabelIsOwnValue(G, C, K, d) == \A g \in G : \A j \in g.members : j \in Ids(C) => LabelEq(g.label, Label(C, j, K, d))
NoSharedLabel(G) == \A g, h \in G : g # h => ~LabelEq(g.label, h.label)                        \* CG3

-----------------------------------------------------------------------------
(* conformant model of JobsCursor.groupby *)
\* DEVIATION G1 (g1 = TRUE: active): _strip_prefix is key.split(".", 1)[-1], the rest is used as one literal key
Stripped(c) == IF Len(c) >= 2 THEN Tail(c) ELSE c
ImplRoot(job, c) == IF Len(c) >= 2 /\ Head(c) = "doc" THEN job.doc ELSE job.sp
ImplHas(job, c, g1) == IF g1 THEN Len(Stripped(c)) = 1 /\ MapGet(ImplRoot(job, c), Stripped(c)[1]) # Abs ELSE Has(job, c)
ImplKV(job, c, d, g1) ==
  IF ~g1 THEN KV(job, c, d)
  ELSE IF ImplHas(job, c, TRUE) THEN MapGet(ImplRoot(job, c), Stripped(c)[1]) ELSE d     \* d = NoDefault: KeyError
\* DEVIATION G2 (g2 = TRUE: active): state point keys first, document keys second
IsDocKey(c) == Len(c) >= 2 /\ Head(c) = "doc"
ImplOrder(cs, g2) == IF g2 THEN SelectSeq(cs, LAMBDA c : ~IsDocKey(c)) \o SelectSeq(cs, IsDocKey) ELSE cs
ImplLabel(C, i, K, d, g1, g2) ==
  CASE K.kind = "str"   -> ImplKV(C[i], K.keys[1], d, g1)
    [] K.kind = "tuple" -> LET ks == ImplOrder(K.keys, g2) IN L([q \in 1..Len(ks) |-> ImplKV(C[i], ks[q], d, g1)])
    [] OTHER -> Label(C, i, K, d)
ImplRaises(C, Sel, K, d, g1) ==      \* KeyError out of the key function
  /\ K.kind \in {"str", "tuple"} /\ d = NoDefault
  /\ \E i \in Selected(C, Sel, K, d) : \E q \in 1..Len(K.keys) : ~ImplHas(C[i], K.keys[q], g1)
ImplGroupByW(C, Sel, K, d, g1, g2) ==
  IF ImplRaises(C, Sel, K, d, g1) THEN [err |-> "KeyError", groups |-> {}]
  ELSE LET S2 == Selected(C, Sel, K, d)
           lab(i) == ImplLabel(C, i, K, d, g1, g2)
           cls(i) == {j \in S2 : LabelEq(lab(j), lab(i))}
           rep(P) == CHOOSE i \in P : \A j \in P : i <= j
       IN [err |-> "", groups |-> {[label |-> lab(rep(P)), members |-> P] : P \in {cls(i) : i \in S2}}]
ImplGroupBy(C, Sel, K, d) == ImplGroupByW(C, Sel, K, d, ~FixedG1, ~FixedG2)
Reference(C, Sel, K, d) == [err |-> "", groups |-> GroupBy(C, Sel, K, d)]
\* same partition and Python-equal labels (1 / 1.0 / True are one label)
SameResult(r1, r2) ==
  /\ r1.err = r2.err
  /\ {g.members : g \in r1.groups} = {g.members : g \in r2.groups}
  /\ \A g \in r1.groups : \A h \in r2.groups : g.members = h.members => LabelEq(g.label, h.label)
ExplainG(C, Sel, K, d, r) ==
  IF SameResult(r, Reference(C, Sel, K, d)) THEN "ok"
  ELSE IF SameResult(r, ImplGroupByW(C, Sel, K, d, TRUE, FALSE)) THEN "G1"
  ELSE IF SameResult(r, ImplGroupByW(C, Sel, K, d, FALSE, TRUE)) THEN "G2"
  ELSE IF SameResult(r, ImplGroupByW(C, Sel, K, d, TRUE, TRUE)) THEN "G1+G2"
  ELSE "unexplained"

\* CG2: Python must be able to sort the labels (of the reference and of the conformant model)
Sortable(vs) == (\A v \in vs : IsNum(v)) \/ (\A v \in vs : v.t = "str") \/ (\A v \in vs : v.t = "id")
SortableLabels(ls) ==
  \/ Cardinality(ls) <= 1 /\ \A v \in ls : v.t \in {"int", "flt", "bool", "str", "id"} \/ (v.t = "list" /\ \A q \in 1..Len(v.l) : IsNum(v.l[q]) \/ v.l[q].t = "str")
  \/ Sortable(ls)
  \/ /\ \A v \in ls : v.t = "list"
     /\ \A v, w \in ls : Len(v.l) = Len(w.l)
     /\ \A v \in ls : \A q \in 1..Len(v.l) : Sortable({w.l[q] : w \in ls})
CaseSortable(C, Sel, K, d) ==       \* for the reference and for the conformant model as currently configured
  LET S2 == Selected(C, Sel, K, d) IN
  /\ SortableLabels({Label(C, i, K, d) : i \in S2})
  /\ ImplRaises(C, Sel, K, d, ~FixedG1) \/ SortableLabels({ImplLabel(C, i, K, d, ~FixedG1, ~FixedG2) : i \in S2})

-----------------------------------------------------------------------------
(* generator *)
us == <<117>>   vs_ == <<118>>
GValsA == {Abs, I(0), I(1), F(1, 1), B(TRUE), I(2), S(us), S(vs_)}
\* keys: a, n.x, x and - names that merely BEGIN with a namespace word - speed, species.name (state point), docs (document)
GSp(a, nx, x, spd, spn) == M((IF a = Abs THEN <<>> ELSE << <<"a", a>> >>)
                   \o (IF nx = Abs THEN <<>> ELSE << <<"n", M(<< <<"x", nx>> >>)>> >>)
                   \o (IF spn = Abs THEN <<>> ELSE << <<"species", M(<< <<"name", spn>> >>)>> >>)
                   \o (IF spd = Abs THEN <<>> ELSE << <<"speed", spd>> >>)
                   \o (IF x = Abs THEN <<>> ELSE << <<"x", x>> >>))
GDoc(x, nx, dcs) == M((IF dcs = Abs THEN <<>> ELSE << <<"docs", dcs>> >>)
                      \o (IF nx = Abs THEN <<>> ELSE << <<"n", M(<< <<"x", nx>> >>)>> >>) \o (IF x = Abs THEN <<>> ELSE << <<"x", x>> >>))
GJobs == {Job(GSp(a, nx, x, spd, spn), GDoc(dx, dnx, dcs)) : a \in GValsA, nx \in {Abs, I(1), I(2), S(us)}, x \in {Abs, I(7)},
                                             spd \in {Abs, I(3), I(4)}, spn \in {Abs, S(us), S(vs_)},
                                             dx \in {Abs, I(1), F(2, 1), S(us)}, dnx \in {Abs, I(5)}, dcs \in {Abs, I(9)}}
GCorpora == IF MODE # "group" THEN <<>> ELSE
            SetToSeq({<<>>} \cup RandomSubset(NGCORP \div 4 + 1, [1..1 -> GJobs])
                     \cup {c \in RandomSubset(NGCORP, [1..2 -> GJobs]) : DistinctSps(c)}
                     \cup {c \in RandomSubset(NGCORP, [1..3 -> GJobs]) : DistinctSps(c)}
                     \cup {c \in RandomSubset(NGCORP, [1..4 -> GJobs]) : DistinctSps(c)})
GKeys == {KStr(<<"a">>), KStr(<<"sp", "a">>), KStr(<<"doc", "x">>), KStr(<<"n", "x">>), KStr(<<"sp", "n", "x">>),
          KStr(<<"doc", "n", "x">>), KStr(<<"x">>), KStr(<<"zz">>), KNone,
          KTuple(<< <<"a">>, <<"doc", "x">> >>), KTuple(<< <<"doc", "x">>, <<"a">> >>), KTuple(<< <<"sp", "a">> >>),
          KTuple(<< <<"a">>, <<"x">> >>), KTuple(<< <<"a">>, <<"n", "x">> >>), KTuple(<< <<"doc", "x">>, <<"sp", "x">>, <<"doc", "n", "x">> >>),
          KCall("getor0", <<"a">>), KCall("getor0", <<"doc", "x">>), KCall("const", <<"a">>),
          KStr(<<"speed">>), KStr(<<"sp", "speed">>), KStr(<<"species", "name">>), KStr(<<"doc", "docs">>),
          KTuple(<< <<"speed">>, <<"species", "name">> >>), KTuple(<< <<"doc", "docs">>, <<"speed">> >>)}
GDefaults == {NoDefault, I(0), I(0 - 1), S(us)}
GSelFilters == {All, At(<<"sp", "a">>, "$exists", B(TRUE)), At(<<"sp", "a">>, "$ne", I(1)), At(<<"doc", "x">>, "$type", S(TN.int)),
                Or(<<At(<<"sp", "a">>, "eq", I(1)), At(<<"sp", "n", "x">>, "$exists", B(TRUE))>>)}

GInit == \E ci \in 1..Len(GCorpora) : \E K \in GKeys : \E d \in GDefaults : \E sf \in GSelFilters :
           /\ corpus = GCorpora[ci] /\ stack = <<sf>> /\ gkey = K /\ gdef = d
           /\ (K.kind \in {"none", "call"} => d = NoDefault)          \* the default is ignored there (a warning only)
           /\ WellTyped(corpus, sf) /\ ~MayDeviate(corpus, sf)
           /\ CaseSortable(corpus, Find(corpus, sf), K, d)
GNext == UNCHANGED gvars
GInitIdle == corpus = <<>> /\ stack = <<>> /\ gkey = KNone /\ gdef = NoDefault      \* file modes: one idle state, the work is in the POSTCONDITION

Sel == Find(corpus, Top)
Req == GroupBy(corpus, Sel, gkey, gdef)
\* theorems about the specification's own result
ReqDisjoint == Disjoint(Req)
ReqCovers == Covers(Req, Selected(corpus, Sel, gkey, gdef))
ReqLabelIsOwnValue == LabelIsOwnValue(Req, corpus, gkey, gdef)
ReqNoSharedLabel == NoSharedLabel(Req)
\* the requirement on the conformant model: violated while G1 / G2 are active
ImplMeetsReq == SameResult(ImplGroupBy(corpus, Sel, gkey, gdef), Reference(corpus, Sel, gkey, gdef))
NoDeviationIsReferenceG == (FixedG1 /\ FixedG2) => ImplMeetsReq

ResOut(r) == [err |-> r.err, groups |-> SetToSeq({[label |-> g.label, members |-> SetToSeq(g.members)] : g \in r.groups})]
GCaseLine(ci, K, d, sf) ==
  LET C == GCorpora[ci]  S1 == Find(C, sf)  impl == ImplGroupBy(C, S1, K, d) IN
  [ci |-> ci, key |-> K, default |-> d, sel |-> sf,
   want |-> ResOut(Reference(C, S1, K, d)), impl |-> ResOut(impl), dev |-> ExplainG(C, S1, K, d, impl)]
GExport ==
  /\ TLCGet("level") >= 0
  /\ ndJsonSerialize(IOEnv.GROUP_CORPORA, GCorpora)
  /\ ndJsonSerialize(IOEnv.GROUP_OUT,
       SetToSeq({GCaseLine(c[1], c[2], c[3], c[4]) :
                 c \in {x \in (1..Len(GCorpora)) \X GKeys \X GDefaults \X GSelFilters :
                          /\ x[2].kind \in {"none", "call"} => x[3] = NoDefault
                          /\ WellTyped(GCorpora[x[1]], x[4]) /\ ~MayDeviate(GCorpora[x[1]], x[4])
                          /\ CaseSortable(GCorpora[x[1]], Find(GCorpora[x[1]], x[4]), x[2], x[3])}}))

-----------------------------------------------------------------------------
(* file mode: recorded real groupby results.  Record: corpus, filter (the cursor's), key, default, err, groups *)
GroupIn == IF MODE = "gfile" THEN ndJsonDeserialize(IOEnv.GROUP_IN) ELSE <<>>
RECURSIVE VFW(_)
VFW(x) == [t |-> x.t, n |-> x.n, d |-> x.d, s |-> x.s, l |-> [k \in 1..Len(x.l) |-> VFW(x.l[k])],
           m |-> [k \in 1..Len(x.m) |-> <<x.m[k][1], VFW(x.m[k][2])>>]]
GRecCorpus(i) == [k \in 1..Len(GroupIn[i].corpus) |-> Job(VFW(GroupIn[i].corpus[k].sp), VFW(GroupIn[i].corpus[k].doc))]
GRecResult(i) == [err |-> GroupIn[i].err,
                  groups |-> {[label |-> VFW(GroupIn[i].groups[k].label),
                               members |-> {GroupIn[i].groups[k].members[q] : q \in 1..Len(GroupIn[i].groups[k].members)}] :
                              k \in 1..Len(GroupIn[i].groups)}]
GVerdict(i) ==
  LET C == GRecCorpus(i)   f == FilterFromWire(GroupIn[i].filter)   K == GroupIn[i].key   d == VFW(GroupIn[i].default)
      wt == WellTyped(C, f) /\ DistinctSps(C)
      S1 == IF GroupIn[i].selgiven THEN {GroupIn[i].sel[q] : q \in 1..Len(GroupIn[i].sel)} ELSE Find(C, f)
      r == GRecResult(i)
      \* a cursor whose own selection is subject to C06's deviations D1 / D2 (Query.tla) is out of scope here: groupby
      \* re-runs the query with an extra $exists conjunct, which changes whether documents are loaded (reported by C06)
      ok == wt /\ CaseSortable(C, S1, K, d) /\ ~MayDeviate(C, f)
      nodup == Len(GroupIn[i].groups) = Cardinality(r.groups)
  IN [i |-> i, applicable |-> ok,
      explain  |-> IF ok THEN ExplainG(C, S1, K, d, r) ELSE "n/a",
      disjoint |-> (ok /\ r.err = "") => (Disjoint(r.groups) /\ nodup),
      covers   |-> (ok /\ r.err = "") => Covers(r.groups, Selected(C, S1, K, d)),
      labelown |-> (ok /\ r.err = "") => LabelIsOwnValue(r.groups, C, K, d),
      noerror  |-> ok => r.err = "",
      nosharedlabel |-> (ok /\ r.err = "") => NoSharedLabel(r.groups),
      want |-> IF ok THEN ResOut(Reference(C, S1, K, d)) ELSE ResOut([err |-> "", groups |-> {}])]
GJudge ==
  /\ TLCGet("level") >= 0
  /\ ndJsonSerialize(IOEnv.GROUP_OUT, [i \in 1..Len(GroupIn) |-> GVerdict(i)])

-----------------------------------------------------------------------------
(* CursorView *)
\* What a cursor over the id set `ids` shows is a function of `ids` alone: it has no state. In particular the answers do
\* not depend on the ORDER in which the operations are applied to one cursor object (membership asked first on a fresh
\* cursor, after len(), after an iteration, after indexing ...).  A recorded observation is therefore a SCRIPT: the
\* sequence of operations applied to one fresh cursor, each with its arguments and its result, and every step is judged
\* against CursorView(ids).  The iteration order is not specified; it is fixed by the (first) "iter" step of the script,
\* every other iteration must repeat it and indexing / slicing must agree with it.
CursorView(ids) == [len |-> Cardinality(ids), contains |-> [i \in ids |-> TRUE]]
IsPermOf(it, ids) == Len(it) = Cardinality(ids) /\ {it[i] : i \in 1..Len(it)} = ids
\* Python indexing / slicing of the iteration sequence (positions are 0-based in Python)
PyIndex(it, i) == LET n == Len(it)  j == IF i < 0 THEN i + n ELSE i IN
                  IF j < 0 \/ j >= n THEN 0 ELSE it[j + 1]                     \* 0: IndexError
Clamp(x, lo, hi) == IF x < lo THEN lo ELSE IF x > hi THEN hi ELSE x
SliceCount(n, lo, hi, step) ==
  LET a == Clamp(IF lo < 0 THEN lo + n ELSE lo, 0, n)
      b == Clamp(IF hi < 0 THEN hi + n ELSE hi, 0, n)
  IN IF b <= a THEN 0 ELSE ((b - a - 1) \div step) + 1
PySlice(it, lo, hi, step) ==   \* step >= 1, explicit bounds
  LET n == Len(it)
      a == Clamp(IF lo < 0 THEN lo + n ELSE lo, 0, n)
  IN [q \in 1..SliceCount(n, lo, hi, step) |-> it[a + (q - 1) * step + 1]]
\* the scripts the harness has to run: every order of the four operation blocks on one fresh cursor. The "contains"
\* block asks membership for EVERY job of the corpus (members and non-members) and for a job that is not in the project.
OpBlocks == {"contains", "len", "iter", "item"}
Scripts == SetToSeq({sq \in [1..4 -> OpBlocks] : \A a, b \in 1..4 : a # b => sq[a] # sq[b]})
\* a step: [op, a (integer arguments), r (integer results: positions; 0 = IndexError; 1/0 for membership)]
StepOK(st, ids, it, hasIt) ==
  LET n == Cardinality(ids) IN
  CASE st.op = "len"      -> st.r = <<CursorView(ids).len>>
    [] st.op = "contains" -> st.r = <<IF st.a[1] \in ids THEN 1 ELSE 0>>
    [] st.op = "iter"     -> IsPermOf(st.r, ids) /\ (hasIt => st.r = it)
    [] st.op = "item"     -> IF hasIt THEN st.r = <<PyIndex(it, st.a[1])>>
                             ELSE LET j == IF st.a[1] < 0 THEN st.a[1] + n ELSE st.a[1] IN
                                  IF j < 0 \/ j >= n THEN st.r = <<0>> ELSE st.r[1] \in ids
    [] st.op = "slice"    -> IF hasIt THEN st.r = PySlice(it, st.a[1], st.a[2], st.a[3])
                             ELSE Len(st.r) = SliceCount(n, st.a[1], st.a[2], st.a[3]) /\ \A q \in 1..Len(st.r) : st.r[q] \in ids
    [] OTHER -> FALSE
CursorIn == IF MODE = "cfile" THEN ndJsonDeserialize(IOEnv.CURSOR_IN) ELSE <<>>
CursorVerdict(i) ==
  LET o == CursorIn[i]
      ids == {o.S[q] : q \in 1..Len(o.S)}
      its == {q \in 1..Len(o.steps) : o.steps[q].op = "iter"}
      hasIt == its # {}
      it == IF hasIt THEN o.steps[CHOOSE q \in its : \A p \in its : q <= p].r ELSE <<>>
      okAt(q) == StepOK(o.steps[q], ids, it, hasIt)
      kind(op) == \A q \in 1..Len(o.steps) : o.steps[q].op = op => okAt(q)
      bad == {q \in 1..Len(o.steps) : ~okAt(q)}
  IN [i |-> i,
      len |-> kind("len"), iter |-> kind("iter"), items |-> kind("item"), slices |-> kind("slice"), contains |-> kind("contains"),
      firstbad |-> IF bad = {} THEN 0 ELSE CHOOSE q \in bad : \A p \in bad : q <= p]
CursorJudge ==
  /\ TLCGet("level") >= 0
  /\ ndJsonSerialize(IOEnv.CURSOR_OUT, [i \in 1..Len(CursorIn) |-> CursorVerdict(i)])
ScriptExport ==
  /\ TLCGet("level") >= 0
  /\ ndJsonSerialize(IOEnv.CURSOR_SCRIPTS, Scripts)
\* theorems about PyIndex / PySlice (checked as ASSUME-like invariants of the generator run)
SliceLaws ==
  LET it == <<11, 12, 13, 14>> IN
  /\ PySlice(it, 0, 4, 1) = it /\ PySlice(it, 1, 3, 1) = <<12, 13>> /\ PySlice(it, 0 - 2, 9, 1) = <<13, 14>>
  /\ PySlice(it, 0, 4, 2) = <<11, 13>> /\ PySlice(it, 3, 1, 1) = <<>> /\ PySlice(it, 0 - 9, 0 - 3, 1) = <<11>>
  /\ PyIndex(it, 0) = 11 /\ PyIndex(it, 0 - 1) = 14 /\ PyIndex(it, 4) = 0 /\ PyIndex(it, 0 - 5) = 0
  /\ Len(Scripts) = 24
  \* order independence on an example: membership first on a fresh cursor / after the other operations - same verdicts
  /\ \A k \in 1..Len(Scripts) : \A j \in 1..3 :
        StepOK([op |-> "contains", a |-> <<j>>, r |-> <<IF j \in {1, 3} THEN 1 ELSE 0>>], {1, 3}, <<3, 1>>, Scripts[k][1] = "iter")
=============================================================================

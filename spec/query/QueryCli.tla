------------------------------ MODULE QueryCli ------------------------------
(* The command line face of the query family (signac/__main__.py: `signac find`, `signac document`,
   `signac statepoint`; signac/filterparse.py), bound to Query.tla / Spelling.tla.

   Every command is its own fresh process over the on-disk project. A command-level case is written as a COMPOSITION
   of the operators the library-level specification already has, so the two fronts cannot drift apart:

       signac find <tokens> [flags]      ids   = Find(C, ParseMap(ParseTokens(tokens)))        (Query.tla, Spelling.tla)
                                         shown = the job's OWN state point / document, restricted to the top-level keys
       signac find '<json>'              ids   = Find(C, ParseMap(json))
       signac document -f <tokens>       the documents of exactly the jobs in Find(...)
       signac document [ids] / statepoint [ids]   the documents / state points of those jobs (all jobs for no id)

   res = exit status class ("ok" = 0, "error" = 1), val = what is printed, parsed back by the harness into blocks
   [id, sp, doc] (positions of the corpus; Abs = not printed).

   What the user of the command is promised (requirements, checked by TLC on every generated case):
     FindPrintsFind          the ids printed are exactly Find(C, reading of the filter arguments)          (C06)
     ShownIsOwnData          what is printed next to an id is that job's own data restricted to the keys (C06)
     SimplifiedIsJsonReading the simplified token spelling prints what its JSON reading prints            (C07)
     InvalidPrintsNothing    a malformed filter exits 1 and prints nothing on stdout
     SelectedDocuments / SelectedStatepoints   `document -f`, `document ids`, `statepoint ids` print the data of
                                               exactly the selected jobs                                    (C06)
   JobsCursor and groupby have no command line face (`find` uses Project._find_job_ids directly; no command groups).

   Calibrated rules (documentation silent; pinned behaviour):
     CC2  argparse: a filter token that begins with "-" is an option (`-1` is --one-line!), so such a token is only
          generated behind the "--" separator, with the flags in front of it;
     CC3  quote characters are not stripped: the token "ab" (with the quotes) denotes the 4-character string;
     CC4  a raw token that starts with { or [ and ends with } or ] is handed to the JSON parser; the raw JSON-like
          tokens of the alphabet below are malformed on purpose (well-formed JSON travels as a "json" token);
     CC5  --sp / --doc take TOP-LEVEL key names; a name the job does not have is skipped;
     CC7  `statepoint` / `document` with an id no job has exit 1; what was printed for the ids before it is unspecified;
     CC6  malformed-filter cases carry a single key/value pair (the implementation detects most errors only when it
          evaluates the clause, and may return early before reaching a later clause). *)
EXTENDS Spelling

CONSTANTS NCLI,      \* number of sampled corpora per size
          NCMD       \* number of sampled filter commands (0: all of them)

VARIABLE ccmd
cvars == <<corpus, stack, ccmd>>

-----------------------------------------------------------------------------
(* commands *)
NoShow == [on |-> FALSE, keys |-> <<>>]
Show(keys) == [on |-> TRUE, keys |-> keys]
\* cmd: "find" | "document" | "statepoint";  toks: filter tokens;  dd: "--" before the tokens (CC2);
\* sp / doc: --sp [keys] / --doc [keys];  show: --show;  oneline: -1;  ids: positions for `document ids` / `statepoint ids`
\* (0 = an id no job has);  byid: the command names jobs by id instead of by filter
Cmd(cmd, toks, sp, doc, show, ol) ==
  [cmd |-> cmd, toks |-> toks, dd |-> \E i \in 1..Len(toks) : toks[i].k = "raw" /\ toks[i].cp # <<>> /\ Head(toks[i].cp) = 45,
   sp |-> sp, doc |-> doc, show |-> show, oneline |-> ol, ids |-> <<>>, byid |-> FALSE]
ById(cmd, ids) == [Cmd(cmd, <<>>, NoShow, NoShow, FALSE, FALSE) EXCEPT !.ids = ids, !.byid = TRUE]

\* ---- malformed filters (CC6: single clause) --------------------------------------------------------------
BadOps == {"$foo", "$exist", "$GT"}
IsLog(comps) == comps \in {<<"$and">>, <<"$or">>, <<"$not">>}
ValueMalformed(key, x) ==        \* x: the value node of the clause
  LET lastc == key[Len(key)] IN
  \/ x = NoNode                                                             \* CC4: malformed JSON-like raw token
  \/ lastc \in BadOps                                                       \* unknown operator
  \/ key \in {<<"$and">>, <<"$or">>} /\ (x.k # "list" \/ x.items = <<>>)    \* logical operator needs a non-empty list
  \/ key = <<"$not">> /\ x.k # "map"
  \/ lastc = "$exists" /\ ~(x.k = "lit" /\ x.v.t = "bool")
  \/ lastc = "$near" /\ x.k = "lit" /\ x.v.t = "list" /\ Len(x.v.l) > 3
  \/ lastc \in OpNames /\ x.k = "map"                                       \* two operators on one key:  a.$gt !   a.$ne /re/
Malformed(toks) ==
  \/ Len(toks) >= 2 /\ toks[1].k = "json"                                   \* a JSON expression as a key
  \/ Len(toks) = 1 /\ toks[1].k = "json" /\ toks[1].node.k # "map"          \* the whole filter must be a mapping
  \/ Len(toks) = 1 /\ toks[1].k = "raw"                                     \* (a lone raw JSON-like token: CC4)
  \/ Len(toks) = 2 /\ toks[1].k = "key" /\ ValueMalformed(toks[1].key, ValueOfToken(toks[2]))
  \/ Len(toks) = 1 /\ toks[1].k = "key" /\ ValueMalformed(toks[1].key, CMap(<<CEnt(<<"$exists">>, CLit(B(TRUE)))>>))   \* lone  a.$gt
\* the filter a token list denotes: composition of Spelling's front-end operators
Reading(toks) ==
  IF toks = <<>> THEN All
  ELSE IF Len(toks) = 1 /\ toks[1].k = "json" THEN ParseMap(toks[1].node)
  ELSE ParseMap(ParseTokens(toks))
\* its JSON form: the mapping parse_filter_arg builds, given back as ONE JSON token
JsonForm(toks) == IF toks = <<>> \/ (Len(toks) = 1 /\ toks[1].k = "json") THEN toks ELSE <<TJson(ParseTokens(toks))>>

\* ---- what a command prints --------------------------------------------------------------------------------
RestrictTo(v, keys) == IF keys = <<>> THEN v ELSE M(SelectSeq(v.m, LAMBDA pr : \E q \in 1..Len(keys) : keys[q] = pr[1]))     \* CC5
Block(C, i, sp, doc) == [id |-> i, sp |-> IF sp.on THEN RestrictTo(C[i].sp, sp.keys) ELSE Abs,
                                  doc |-> IF doc.on THEN RestrictTo(C[i].doc, doc.keys) ELSE Abs]
Eff(c) == [sp  |-> IF c.show /\ ~c.sp.on THEN Show(<<>>) ELSE c.sp,       \* --show = --sp --doc unless given explicitly
           doc |-> IF c.show /\ ~c.doc.on THEN Show(<<>>) ELSE c.doc]
Out(res, blocks, ordered) == [res |-> res, blocks |-> blocks, ordered |-> ordered]
Run(C, c) ==
  IF c.byid THEN
    \* `statepoint ids` / `document ids`: in the order given; no id = every job (any order); an unknown id is an error
    IF \E q \in 1..Len(c.ids) : c.ids[q] \notin Ids(C) THEN Out("error", <<>>, TRUE)
    ELSE LET sel == IF c.ids = <<>> THEN SetToSeq(Ids(C)) ELSE c.ids
             sh == IF c.cmd = "statepoint" THEN [sp |-> Show(<<>>), doc |-> NoShow] ELSE [sp |-> NoShow, doc |-> Show(<<>>)]
         IN Out("ok", [q \in 1..Len(sel) |-> Block(C, sel[q], sh.sp, sh.doc)], c.ids # <<>>)
  ELSE IF Malformed(c.toks) THEN Out("error", <<>>, FALSE)
  ELSE LET sel == SetToSeq(Find(C, Reading(c.toks)))
           sh == IF c.cmd = "document" THEN [sp |-> NoShow, doc |-> Show(<<>>)] ELSE Eff(c)
       IN Out("ok", [q \in 1..Len(sel) |-> Block(C, sel[q], sh.sp, sh.doc)], FALSE)

-----------------------------------------------------------------------------
(* bounded universe of the command line *)
qab == <<34, 97, 98, 34>>          \* "ab"  with its quote characters (CC3)
spa == <<115, 112, 46, 97>>        \* sp.a  - a VALUE that looks like a key
cTrueCap == <<84, 114, 117, 101>>  \* True
cA == <<97>>
CliValsA == {Abs, I(1), F(3, 2), F(1, 2), I(0 - 1), B(TRUE), Null, S(ab), S(qab), S(spa), S(cTrueCap), S(one), S(cA)}
CliJobs == {Job(MkSp(a, n), MkDoc(x)) : a \in CliValsA,
                                        n \in {Abs, M(<< <<"x", I(1)>> >>), M(<< <<"x", S(ab)>> >>)},
                                        x \in {Abs, I(1), B(TRUE), l12, S(ab)}}
CliCorpora == IF MODE # "cli" THEN <<>> ELSE
  SetToSeq({<<>>} \cup {c \in RandomSubset(NCLI, [1..3 -> CliJobs]) : DistinctSps(c)}
                 \cup {c \in RandomSubset(NCLI, [1..5 -> CliJobs]) : DistinctSps(c)})

\* (1) filters whose spellings (JSON form and simplified forms, canonical and non-canonical number tokens) are run
CliFilters ==
  {At(PA, "eq", I(1)), At(PA, "eq", F(3, 2)), At(PA, "eq", I(0 - 1)), At(PA, "eq", Null), At(PA, "eq", S(ab)), At(PA, "eq", B(TRUE)),
   At(PA, "$gt", I(0 - 1)), At(PA, "$lte", F(1, 2)), At(PA, "$ne", I(1)), At(PA, "$in", L(<<I(1), S(ab)>>)), At(PA, "$exists", B(TRUE)),
   At(PA, "$exists", B(FALSE)), At(PA, "$type", S(TN.str)), At(PA, "$regex", S(cA)), At(PNX, "eq", I(1)), At(PNX, "$ne", S(ab)),
   At(PDX, "eq", B(TRUE)), At(PDX, "eq", l12), At(PDX, "$exists", B(TRUE)), At(PDX, "$type", S(TN.list)), All,
   And(<<At(PA, "eq", I(1)), At(PDX, "eq", B(TRUE))>>), And(<<At(PA, "$exists", B(TRUE)), At(PNX, "eq", I(1)), At(PDX, "$ne", I(1))>>),
   Or(<<At(PA, "eq", S(ab)), At(PDX, "eq", I(1))>>), Not(At(PA, "eq", Null)), Not(Or(<<At(PA, "eq", I(1)), At(PDX, "$exists", B(FALSE))>>)),
   And(<<Not(At(PDX, "eq", I(1))), At(PA, "$ne", S(ab))>>)}
CliSpellings(f) == {s \in Spellings(f) : s.form \in {"cli", "json1"}} \cup (IF f = All THEN {Sp("cli", CMap(<<>>), <<>>)} ELSE {})
SpToks(s) == IF s.form = "json1" THEN <<TJson(s.node)>> ELSE s.toks
FlagSets == {<<NoShow, NoShow, FALSE, FALSE>>, <<Show(<<>>), NoShow, FALSE, FALSE>>, <<Show(<<"a">>), NoShow, FALSE, FALSE>>,
             <<NoShow, Show(<<>>), FALSE, FALSE>>, <<Show(<<"n", "zz", "a">>), Show(<<"x">>), FALSE, FALSE>>,
             <<NoShow, NoShow, TRUE, FALSE>>, <<Show(<<"a">>), NoShow, TRUE, FALSE>>,
             <<Show(<<>>), Show(<<>>), FALSE, TRUE>>, <<NoShow, Show(<<"x", "y">>), FALSE, TRUE>>, <<NoShow, NoShow, FALSE, TRUE>>}
FindCmds ==
  LET plain == {Cmd("find", SpToks(s), NoShow, NoShow, FALSE, FALSE) : s \in UNION {CliSpellings(f) : f \in CliFilters}}
      few   == RandomSubset(40, plain)
  IN plain \cup {Cmd("find", c.toks, fl[1], fl[2], fl[3], fl[4]) : c \in few, fl \in FlagSets}
            \cup {Cmd("document", c.toks, NoShow, NoShow, FALSE, FALSE) : c \in few}

\* (2) token alphabet: the simplified grammar read from the token side (values that look like keys, quoted strings,
\*     negative numbers, floats, keywords in the wrong case, "!", /regex/, JSON tokens, malformed tokens)
KeyToks == {TKey(<<"a">>), TKey(<<"sp", "a">>), TKey(<<"n", "x">>), TKey(<<"doc", "x">>), TKey(<<"a", "$gt">>), TKey(<<"a", "$ne">>),
            TKey(<<"doc", "x", "$ne">>), TKey(<<"a", "$exists">>), TKey(<<"sp", "a", "$in">>), TKey(<<"zz">>), TKey(<<"doc", "x", "$near">>)}
BadKeyToks == {TKey(<<"a", "$foo">>), TKey(<<"doc", "x", "$exist">>), TKey(<<"$and">>), TKey(<<"$not">>), TJson(CMap(<<CEnt(<<"a">>, CLit(I(1)))>>))}
RawVals == {TRaw(<<49>>), TRaw(<<49, 46, 53>>), TRaw(<<45, 49>>), TRaw(<<46, 53>>), TRaw(<<45, 46, 53>>), TRaw(<<43, 49>>), TRaw(cTrue), TRaw(cTrueCap),
            TRaw(cFalse), TRaw(cNull), TRaw(ab), TRaw(qab), TRaw(spa), TRaw(cA), TRaw(<<100, 111, 99, 46, 120>>), TRaw(cBang),
            TRaw(<<47, 97, 47>>), TRaw(<<47, 94, 49, 36, 47>>), TRaw(<<39, 49, 39>>)}
JsonVals == {TJson(CLit(l12)), TJson(CLit(L(<<I(1), S(ab)>>))), TJson(CMap(<<CEnt(<<"$gt">>, CLit(I(0)))>>)),
             TJson(CMap(<<CEnt(<<"$in">>, CLit(L(<<I(1), S(ab)>>)))>>)), TJson(CLit(L(<<I(1), I(2), I(3), I(4)>>)))}
BadVals == {TRaw(<<123, 97, 125>>), TRaw(<<91, 49, 44, 93>>), TRaw(<<123, 34, 97, 34, 58, 32, 125>>)}      \* {a}   [1,]   {"a": }
Pairs == {<<k, v>> : k \in KeyToks \cup BadKeyToks, v \in RawVals \cup JsonVals \cup BadVals}
TokenCmds ==
  LET single == {Cmd("find", p, NoShow, NoShow, FALSE, FALSE) : p \in Pairs}
      lone == {Cmd("find", <<k>>, NoShow, NoShow, FALSE, FALSE) : k \in KeyToks} \cup
              {Cmd("find", <<v>>, NoShow, NoShow, FALSE, FALSE) : v \in BadVals \cup {TJson(CLit(l12))}}
      good == {p \in KeyToks \X (RawVals \cup JsonVals) : ~Malformed(<<p[1], p[2]>>)}
      two  == {Cmd("find", <<pq[1][1], pq[1][2], pq[2][1], pq[2][2]>>, NoShow, NoShow, FALSE, FALSE) :
                 pq \in {x \in RandomSubset(120, good \X good) : PrefixedKey(x[1][1].key) # PrefixedKey(x[2][1].key)}}
      docf == {Cmd("document", c.toks, NoShow, NoShow, FALSE, FALSE) : c \in RandomSubset(30, single)}
  IN single \cup lone \cup two \cup docf
AllCmds == IF MODE # "cli" THEN <<>>
           ELSE IF NCMD = 0 THEN SetToSeq(FindCmds \cup TokenCmds)
           ELSE SetToSeq(RandomSubset(NCMD, FindCmds \cup TokenCmds))
\* (3) by id: depends on the corpus size
IdCmds(C) ==
  LET n == Len(C) IN
  {ById("statepoint", <<>>), ById("document", <<>>)} \cup
  (IF n = 0 THEN {ById("statepoint", <<0>>)} ELSE
     {ById("statepoint", <<1>>), ById("document", <<n>>), ById("statepoint", [q \in 1..n |-> n + 1 - q]),
      ById("document", [q \in 1..n |-> q]), ById("statepoint", <<1, 0>>), ById("document", <<0>>), ById("statepoint", <<n, 1, n>>)})

\* a case is generated only where the filter has a meaning on the corpus (ill-typed pairs: Query.tla CR7) and where Cast
\* is specified for every raw token (CC1)
TokensSpecified(toks) == \A i \in 1..Len(toks) : toks[i].k = "raw" => (CastDefined(toks[i].cp) \/ JsonLike(toks[i].cp))
IsCase(C, c) == c.byid \/ (TokensSpecified(c.toks) /\ (Malformed(c.toks) \/ WellTyped(C, Reading(c.toks))))
CasesOf(ci) == {c \in {AllCmds[k] : k \in 1..Len(AllCmds)} \cup IdCmds(CliCorpora[ci]) : IsCase(CliCorpora[ci], c)}

CliInit == \E ci \in 1..Len(CliCorpora) : \E c \in CasesOf(ci) :
             /\ corpus = CliCorpora[ci] /\ ccmd = c
             /\ stack = IF c.byid \/ Malformed(c.toks) THEN <<>> ELSE <<Reading(c.toks)>>
CliNext == UNCHANGED cvars

-----------------------------------------------------------------------------
(* requirements at the command level *)
Res == Run(corpus, ccmd)
BlockIds(o) == {o.blocks[q].id : q \in 1..Len(o.blocks)}
FindPrintsFind == (~ccmd.byid /\ Res.res = "ok") => BlockIds(Res) = Find(corpus, Reading(ccmd.toks)) /\ Len(Res.blocks) = Cardinality(BlockIds(Res))
ShownIsOwnData ==
  \A q \in 1..Len(Res.blocks) :
    LET b == Res.blocks[q]   e == Eff(ccmd) IN
    \* every printed entry is an entry of that job's own mapping ...
    /\ b.sp # Abs => \A k \in 1..Len(b.sp.m) : MapGet(corpus[b.id].sp, b.sp.m[k][1]) = b.sp.m[k][2]
    /\ b.doc # Abs => \A k \in 1..Len(b.doc.m) : MapGet(corpus[b.id].doc, b.doc.m[k][1]) = b.doc.m[k][2]
    \* ... all of it where no keys are named, and every named key the job has
    /\ (ccmd.cmd = "statepoint" \/ (ccmd.cmd = "find" /\ e.sp.on /\ e.sp.keys = <<>>)) => b.sp = corpus[b.id].sp
    /\ (ccmd.cmd = "document" \/ (ccmd.cmd = "find" /\ e.doc.on /\ e.doc.keys = <<>>)) => b.doc = corpus[b.id].doc
    /\ (ccmd.cmd = "find" /\ e.sp.on) => \A k \in 1..Len(e.sp.keys) : MapGet(b.sp, e.sp.keys[k]) = MapGet(corpus[b.id].sp, e.sp.keys[k])
    /\ (ccmd.cmd = "find" /\ e.doc.on) => \A k \in 1..Len(e.doc.keys) : MapGet(b.doc, e.doc.keys[k]) = MapGet(corpus[b.id].doc, e.doc.keys[k])
    /\ (ccmd.cmd = "find" /\ ~e.sp.on) => b.sp = Abs
    /\ (ccmd.cmd = "find" /\ ~e.doc.on) => b.doc = Abs
SimplifiedIsJsonReading ==
  (~ccmd.byid /\ ~Malformed(ccmd.toks)) => Run(corpus, [ccmd EXCEPT !.toks = JsonForm(ccmd.toks)]) = Res
InvalidPrintsNothing == (~ccmd.byid /\ Malformed(ccmd.toks)) => (Res.res = "error" /\ Res.blocks = <<>>)
SelectedDocuments == (ccmd.cmd = "document" /\ ~ccmd.byid /\ Res.res = "ok") =>
                        {<<b.id, b.doc>> : b \in {Res.blocks[q] : q \in 1..Len(Res.blocks)}} = {<<i, corpus[i].doc>> : i \in Find(corpus, Reading(ccmd.toks))}
SelectedStatepoints == (ccmd.byid /\ Res.res = "ok" /\ ccmd.ids # <<>>) =>
                        /\ Len(Res.blocks) = Len(ccmd.ids)
                        /\ \A q \in 1..Len(ccmd.ids) : Res.blocks[q].id = ccmd.ids[q]

\* export: one line per corpus with its cases; `json` = the JSON reading of a token command (run as a second command)
CliCaseLine(C, c) == [cmd |-> c, out |-> Run(C, c),
                   json |-> IF c.byid \/ Malformed(c.toks) \/ JsonForm(c.toks) = c.toks THEN <<>> ELSE JsonForm(c.toks),
                   filter |-> IF c.byid \/ Malformed(c.toks) THEN All ELSE Reading(c.toks),
                   malformed |-> ~c.byid /\ Malformed(c.toks)]
CliExport ==
  /\ TLCGet("level") >= 0
  /\ ndJsonSerialize(IOEnv.CLI_OUT, [ci \in 1..Len(CliCorpora) |->
        [ci |-> ci, corpus |-> CliCorpora[ci], cases |-> LET cs == SetToSeq(CasesOf(ci)) IN [k \in 1..Len(cs) |-> CliCaseLine(CliCorpora[ci], cs[k])]]])
=============================================================================

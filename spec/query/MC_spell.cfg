\* Spelling.tla: every initial state one filter; SPELL_OUT names the export file
CONSTANTS
  MODE = "spell"
  NCORP = 1
  MAXJOBS = 6
  MAXDEPTH = 4
  FixedD1 = FALSE
  FixedD2 = TRUE
  FixedD3 = FALSE
  NSPELL = 120
INIT SpellInit
NEXT SpellNext
INVARIANT AllSpellingsDenote
INVARIANT CanonicalIsConcrete
INVARIANT CastRoundTrip
INVARIANT CastAltTokens
INVARIANT CastGrammar
INVARIANT CastOrder
POSTCONDITION SpellExport
CHECK_DEADLOCK FALSE

------------------------------ MODULE Spelling ------------------------------
(* C07, first half: every spelling of a query denotes the same abstract filter.

   An abstract filter (Query.tla) can be written in many concrete ways. This module
     - defines concrete syntax trees (CST) for Python mappings and command-line token lists -
       "spelling descriptors" which the harness renders mechanically (join key components with ".",
       json.dumps a node, chr() the code points of a raw token; no decisions);
     - produces Spellings(f), the closure of the canonical spelling under the rewrite rules
         R1  dotted key  <->  nested mapping (fully, or first component only)
         R2  explicit "sp." prefix  <->  no prefix            (state point keys only)
         R3  operator as nested mapping {"k": {"$op": x}}  <->  key suffix {"k.$op": x}
         R4  mapping  <->  command-line tokens  k v k v ...   where CliExpressible
         R5  whole filter as one JSON token
         R6  {"$and": [..]}  <->  one flat mapping, where the keys do not clash
         R7  token list  <->  one whitespace separated string given to find_jobs
       (the rules commute, so the closure is the image of the product of their on/off choices;
        the style may differ from operand to operand);
     - specifies the front ends: Cast / Token (filterparse._cast), ParseTokens (parse_filter_arg /
       parse_simple / _parse_single) and ParseMap (_add_prefix, _nested_dicts_to_dotted_keys, and the
       order in which _find_result consumes a mapping);
     - states the requirement  AllSpellingsDenote:  Parse(s) and f have the same normal form for every
       s in Spellings(f), and  CastRoundTrip:  Cast(Token(v)) = v for every CLI-simple value.
   TLC checks both on every generated filter and exports the descriptors together with the mapping the
   spec says parse_filter_arg must return for each token list. *)
EXTENDS Query

CONSTANT NSPELL       \* universe mode: number of sampled compound filters (all atoms are always included)

-----------------------------------------------------------------------------
(* concrete syntax trees *)
CLit(v)      == [k |-> "lit",  key |-> <<>>, v |-> v,   items |-> <<>>]
CMap(ents)   == [k |-> "map",  key |-> <<>>, v |-> Abs, items |-> ents]    \* ents: sequence of CEnt
CEnt(key, x) == [k |-> "ent",  key |-> key,  v |-> Abs, items |-> <<x>>]   \* key: components, joined with "."
CList(xs)    == [k |-> "list", key |-> <<>>, v |-> Abs, items |-> xs]
NoNode == CLit(Abs)
\* tokens: "key" (components joined with "."), "raw" (the code points cp), "json" (json.dumps of node)
TKey(comps) == [k |-> "key",  key |-> comps, cp |-> <<>>, node |-> NoNode]
TRaw(cp)    == [k |-> "raw",  key |-> <<>>,  cp |-> cp,   node |-> NoNode]
TJson(n)    == [k |-> "json", key |-> <<>>,  cp |-> <<>>, node |-> n]
\* a spelling: form "py" (mapping given to find_jobs), "json1" (one JSON token on the command line),
\* "cli" (token list on the command line), "str" (tokens joined by blanks, given to find_jobs)
Sp(form, node, toks) == [form |-> form, node |-> node, toks |-> toks]

-----------------------------------------------------------------------------
(* Cast and Token: filterparse._cast on code point sequences *)
cTrue == <<116, 114, 117, 101>>   cFalse == <<102, 97, 108, 115, 101>>   cNull == <<110, 117, 108, 108>>
cBang == <<33>>
IsDigits(s) == s # <<>> /\ \A i \in 1..Len(s) : s[i] \in 48..57
RECURSIVE DigitsVal(_)
DigitsVal(s) == IF s = <<>> THEN 0 ELSE 10 * DigitsVal(SubSeq(s, 1, Len(s) - 1)) + (s[Len(s)] - 48)
Signed(s) == s # <<>> /\ Head(s) \in {43, 45}
Unsigned(s) == IF Signed(s) THEN Tail(s) ELSE s
SignOf(s) == IF s # <<>> /\ Head(s) = 45 THEN 0 - 1 ELSE 1
IsIntLit(s) == IsDigits(Unsigned(s)) /\ Len(Unsigned(s)) <= 6
DotPos(s) == {i \in 1..Len(s) : s[i] = 46}
IsFloatLit(s) == LET u == Unsigned(s) IN
                 /\ Cardinality(DotPos(u)) = 1
                 /\ LET p == CHOOSE i \in DotPos(u) : TRUE IN
                    /\ IsDigits(SubSeq(u, 1, p - 1)) /\ IsDigits(SubSeq(u, p + 1, Len(u)))
                    /\ p - 1 <= 5 /\ Len(u) - p <= 4
RECURSIVE Gcd(_, _)
Gcd(a, b) == IF b = 0 THEN a ELSE Gcd(b, a % b)
Pow10(k) == 10 ^ k
FloatVal(s) == LET u == Unsigned(s)
                   p == CHOOSE i \in DotPos(u) : TRUE
                   fr == SubSeq(u, p + 1, Len(u))
                   num == DigitsVal(SubSeq(u, 1, p - 1)) * Pow10(Len(fr)) + DigitsVal(fr)
                   den == Pow10(Len(fr))
                   g == Gcd(num, den)
               IN IF num = 0 THEN F(0, 1) ELSE F(SignOf(s) * (num \div g), den \div g)
\* anything Python's int()/float() might accept beyond the two strict grammars above: digits, sign, ".", "_", e/E,
\* blanks, inf / infinity / nan.  For such tokens Cast is deliberately left unspecified (they are never generated).
Lower(c) == IF c \in 65..90 THEN c + 32 ELSE c
LowerSeq(s) == [i \in 1..Len(s) |-> Lower(s[i])]
NumberLike(s) ==
  \/ s # <<>> /\ (\A i \in 1..Len(s) : s[i] \in (48..57) \cup {43, 45, 46, 95, 101, 69, 32, 9, 10})
              /\ (\E i \in 1..Len(s) : s[i] \in 48..57)
  \/ LowerSeq(SelectSeq(Unsigned(s), LAMBDA c : c \notin {32, 9, 10})) \in
       {<<105, 110, 102>>, <<105, 110, 102, 105, 110, 105, 116, 121>>, <<110, 97, 110>>}
CastDefined(s) == s \in {cTrue, cFalse, cNull} \/ IsIntLit(s) \/ IsFloatLit(s) \/ ~NumberLike(s)
Cast(s) ==     \* the order of the cases is the order of the try-blocks in _cast
  CASE s = cTrue  -> B(TRUE)
    [] s = cFalse -> B(FALSE)
    [] s = cNull  -> Null
    [] IsIntLit(s) -> I(SignOf(s) * DigitsVal(Unsigned(s)))
    [] IsFloatLit(s) -> FloatVal(s)
    [] OTHER -> S(s)

RECURSIVE NatText(_)
NatText(k) == IF k < 10 THEN <<48 + k>> ELSE NatText(k \div 10) \o <<48 + (k % 10)>>
IntText(k) == IF k < 0 THEN <<45>> \o NatText(0 - k) ELSE NatText(k)
RECURSIVE FracText(_, _)
FracText(r, q) == IF r = 0 THEN <<>> ELSE <<48 + ((r * 10) \div q)>> \o FracText((r * 10) % q, q)
\* repr() of the float p/q (q a power of two, magnitude in the fixed-notation range): exact decimal expansion
FloatText(v) == LET a == IAbs(v.n) fr == FracText(a % v.d, v.d) IN
                (IF v.n < 0 THEN <<45>> ELSE <<>>) \o NatText(a \div v.d) \o <<46>> \o (IF fr = <<>> THEN <<48>> ELSE fr)
Token(v) == CASE v.t = "bool" -> IF v.n = 1 THEN cTrue ELSE cFalse
              [] v.t = "null" -> cNull
              [] v.t = "int"  -> IntText(v.n)
              [] v.t = "flt"  -> FloatText(v)
              [] OTHER -> v.s
JsonLike(s)  == s # <<>> /\ ((Head(s) = 123 /\ s[Len(s)] = 125) \/ (Head(s) = 91 /\ s[Len(s)] = 93))
RegexLike(s) == s # <<>> /\ Head(s) = 47 /\ s[Len(s)] = 47
\* can the value be written as one plain command-line token?  (a string that looks like a number, a keyword,
\* JSON, a /regex/ or "!" cannot: it needs the JSON form)
CliSimple(v) ==
  \/ v.t \in {"bool", "null", "int"}
  \/ v.t = "flt" /\ IsFloatLit(FloatText(v))
  \/ v.t = "str" /\ v.s # <<>> /\ CastDefined(v.s) /\ Cast(v.s) = S(v.s) /\ ~JsonLike(v.s) /\ ~RegexLike(v.s) /\ v.s # cBang
HasBlank(s) == \E i \in 1..Len(s) : s[i] \in {32, 9, 10, 11, 12, 13}

-----------------------------------------------------------------------------
(* rendering an abstract filter in a style *)
Styles == [kf : {"dot", "nest", "half"}, pfx : BOOLEAN, opf : {"nest", "suffix"}]
Rot(sts, k) == [i \in 1..Len(sts) |-> sts[((i + k - 1) % Len(sts)) + 1]]

KeyComps(a, st) == IF Head(a.path) = "sp" /\ ~st.pfx THEN Tail(a.path) ELSE a.path          \* R2
\* entry key components and value node of an atom (R3)
AtomKey(a, st) == IF a.op # "eq" /\ st.opf = "suffix" THEN KeyComps(a, st) \o <<a.op>> ELSE KeyComps(a, st)
AtomVal(a, st) == IF a.op = "eq" \/ st.opf = "suffix" THEN CLit(a.arg) ELSE CMap(<<CEnt(<<a.op>>, CLit(a.arg))>>)
RECURSIVE NestEnt(_, _)
NestEnt(comps, val) == IF Len(comps) = 1 THEN CEnt(comps, val)
                       ELSE CEnt(<<Head(comps)>>, CMap(<<NestEnt(Tail(comps), val)>>))
AtomEnt(a, st) ==                                                                              \* R1
  LET key == AtomKey(a, st)  val == AtomVal(a, st) IN
  CASE st.kf = "dot" -> CEnt(key, val)
    [] st.kf = "nest" -> NestEnt(key, val)
    [] OTHER -> IF Len(key) = 1 THEN CEnt(key, val) ELSE CEnt(<<Head(key)>>, CMap(<<CEnt(Tail(key), val)>>))

RECURSIVE SpellF(_, _)
SpellF(f, sts) ==
  CASE f.tag = "all"  -> CMap(<<>>)
    [] f.tag = "atom" -> CMap(<<AtomEnt(f, sts[1])>>)
    [] f.tag = "not"  -> CMap(<<CEnt(<<"$not">>, SpellF(f.kids[1], Rot(sts, 1)))>>)
    [] OTHER -> CMap(<<CEnt(<<"$" \o f.tag>>, CList([i \in 1..Len(f.kids) |-> SpellF(f.kids[i], Rot(sts, i - 1))]))>>)

\* _add_prefix on the components of a top-level key
PrefixedKey(comps) == IF Head(comps) \in {"sp", "doc"} \/ Head(comps) \in {"$and", "$or", "$not"} THEN comps ELSE <<"sp">> \o comps
\* R6: a conjunction as one flat mapping: plain entries, then at most one $not / $and / $or entry, keys distinct
Conjuncts(f) == IF f.tag = "and" THEN f.kids ELSE <<f>>
ConjEnt(g, sts) == SpellF(g, sts).items[1]
Mergeable(f, sts) ==
  /\ f.tag = "and" /\ Len(f.kids) >= 2
  /\ \A i \in 1..Len(f.kids) : f.kids[i].tag # "all"
  /\ \A i, j \in 1..Len(f.kids) : i < j =>      \* distinct also after _add_prefix ("a" and "sp.a" are one key: see CS1)
        PrefixedKey(ConjEnt(f.kids[i], Rot(sts, i - 1)).key) # PrefixedKey(ConjEnt(f.kids[j], Rot(sts, j - 1)).key)
Merged(f, sts) == CMap([i \in 1..Len(f.kids) |-> ConjEnt(f.kids[i], Rot(sts, i - 1))])

\* R4: command-line tokens for a top-level conjunction
RECURSIVE StringsOK(_)
RECURSIVE NoBlankValue(_)
NoBlankValue(v) == CASE v.t = "str" -> ~HasBlank(v.s)
                     [] v.t = "list" -> \A i \in 1..Len(v.l) : NoBlankValue(v.l[i])
                     [] OTHER -> TRUE
StringsOK(f) == IF f.tag = "atom" THEN NoBlankValue(f.arg) ELSE \A i \in 1..Len(f.kids) : StringsOK(f.kids[i])
\* tokens of one conjunct; <<>> when it cannot be written in this style
ConjTokens(g, sts, last) ==
  LET st == sts[1] IN
  IF g.tag = "atom" THEN
    LET kc == KeyComps(g, st) IN
    IF g.op # "eq" /\ st.opf = "nest" THEN <<TKey(kc), TJson(AtomVal(g, st))>>                   \* k '{"$op": x}'
    ELSE IF g.op = "$exists" /\ g.arg = B(TRUE) THEN
         IF last /\ st.kf = "dot" THEN <<TKey(kc)>> ELSE <<TKey(kc), TRaw(cBang)>>                \* a lone key, or "key !"
    ELSE IF g.op = "$regex" /\ g.arg.t = "str" THEN <<TKey(kc), TRaw(<<47>> \o g.arg.s \o <<47>>)>>  \* k /re/
    ELSE IF CliSimple(g.arg) THEN <<TKey(AtomKey(g, st)), TRaw(Token(g.arg))>>                   \* k v   k.$op v
    ELSE IF g.arg.t = "list" THEN <<TKey(AtomKey(g, st)), TJson(CLit(g.arg))>>                   \* k '[1, 2]'
    ELSE <<>>
  ELSE IF g.tag = "all" THEN <<>>
  ELSE LET e == ConjEnt(g, sts) IN <<TKey(e.key), TJson(e.items[1])>>
CliTokens(f, sts) ==
  LET cs == IF f.tag = "all" THEN <<>> ELSE Conjuncts(f)
      tk == [i \in 1..Len(cs) |-> ConjTokens(cs[i], Rot(sts, i - 1), i = Len(cs))]
  IN IF \E i \in 1..Len(cs) : tk[i] = <<>> THEN <<>> ELSE FlattenSeq(tk)
CliExpressible(f, sts) ==
  LET cs == Conjuncts(f) IN
  /\ f.tag # "all"
  /\ \A i \in 1..Len(cs) : ConjTokens(cs[i], Rot(sts, i - 1), i = Len(cs)) # <<>>
  /\ \A i, j \in 1..Len(cs) : i < j => PrefixedKey(ConjTokens(cs[i], Rot(sts, i - 1), FALSE)[1].key) # PrefixedKey(ConjTokens(cs[j], Rot(sts, j - 1), FALSE)[1].key)

StyleSeqs == {<<st>> : st \in Styles} \cup
             {<<[kf |-> "dot", pfx |-> TRUE, opf |-> "nest"], [kf |-> "nest", pfx |-> FALSE, opf |-> "suffix"]>>,
              <<[kf |-> "half", pfx |-> FALSE, opf |-> "suffix"], [kf |-> "dot", pfx |-> FALSE, opf |-> "nest"], [kf |-> "nest", pfx |-> TRUE, opf |-> "nest"]>>}
Canonical == <<[kf |-> "dot", pfx |-> TRUE, opf |-> "nest"]>>
Spellings(f) ==
  LET py   == {Sp("py", SpellF(f, sts), <<>>) : sts \in StyleSeqs}
      mrg  == {Sp("py", Merged(f, sts), <<>>) : sts \in {x \in StyleSeqs : x[1].kf = "dot" /\ Mergeable(f, x)}}
      j1   == {Sp("json1", s.node, <<>>) : s \in {x \in mrg \cup {Sp("py", SpellF(f, sts), <<>>) : sts \in StyleSeqs \ {<<st>> : st \in Styles}}
                                                       \cup {Sp("py", SpellF(f, Canonical), <<>>)} : x.node.items # <<>>}}     \* R5
      cli  == {Sp("cli", CMap(<<>>), CliTokens(f, sts)) : sts \in {x \in StyleSeqs : CliExpressible(f, x)}}         \* R4
      str  == IF StringsOK(f) THEN {Sp("str", CMap(<<>>), s.toks) : s \in cli} ELSE {}                              \* R7
  IN py \cup mrg \cup j1 \cup cli \cup str

-----------------------------------------------------------------------------
(* the front ends *)
OpNames == Ops \ {"eq"}
\* parse_filter_arg / parse_simple / _parse_single on a token list  ->  the mapping (CST) it returns
ValueOfToken(t) ==
  CASE t.k = "json" -> t.node
    [] t.cp = cBang -> CMap(<<CEnt(<<"$exists">>, CLit(B(TRUE)))>>)
    [] RegexLike(t.cp) -> CMap(<<CEnt(<<"$regex">>, CLit(S(SubSeq(t.cp, 2, Len(t.cp) - 1))))>>)
    [] JsonLike(t.cp) \/ ~CastDefined(t.cp) -> NoNode                        \* not modelled (never generated)
    [] OTHER -> CLit(Cast(t.cp))
ParseTokens(toks) ==
  LET n == (Len(toks) + 1) \div 2 IN
  CMap([i \in 1..n |-> CEnt(toks[2 * i - 1].key,
                            IF 2 * i <= Len(toks) THEN ValueOfToken(toks[2 * i])
                            ELSE CMap(<<CEnt(<<"$exists">>, CLit(B(TRUE)))>>))])
AddPrefix(comps) == PrefixedKey(comps)
\* _nested_dicts_to_dotted_keys: the (dotted key, leaf) pairs below an entry
RECURSIVE FlatEnt(_, _)
FlatEnt(prefix, e) ==
  LET comps == prefix \o e.key   x == e.items[1] IN
  IF x.k = "map" /\ x.items # <<>> THEN FlattenSeq([i \in 1..Len(x.items) |-> FlatEnt(comps, x.items[i])])
  ELSE << <<comps, x>> >>
LeafAtom(pr) ==
  LET comps == pr[1]  lastc == comps[Len(comps)]
      arg == IF pr[2].k = "lit" THEN pr[2].v ELSE M(<<>>) IN
  IF lastc \in OpNames THEN At(SubSeq(comps, 1, Len(comps) - 1), lastc, arg) ELSE At(comps, "eq", arg)
\* a mapping as _find_job_ids / _find_result read it: plain keys (prefixed, flattened) first, then $not, $and, $or
RECURSIVE ParseMap(_)
ParseMap(node) ==
  LET es == node.items
      isLog(e) == e.key \in {<<"$not">>, <<"$and">>, <<"$or">>}
      plain0 == SelectSeq(es, LAMBDA e : ~isLog(e))
      \* CS1 (calibrated): the prefixed filter is rebuilt as a dict, so of two entries that name the same key once with
      \* and once without the "sp." prefix only the later one survives.  Spellings(f) never produces such a mapping.
      keep == {i \in 1..Len(plain0) : ~\E j \in (i + 1)..Len(plain0) : AddPrefix(plain0[j].key) = AddPrefix(plain0[i].key)}
      plain == SelectSeq([i \in 1..Len(plain0) |-> IF i \in keep THEN plain0[i] ELSE NoNode], LAMBDA e : e # NoNode)
      atoms == FlattenSeq([i \in 1..Len(plain) |->
                 LET fl == FlatEnt(<<>>, [plain[i] EXCEPT !.key = AddPrefix(plain[i].key)]) IN
                 [q \in 1..Len(fl) |-> LeafAtom(fl[q])]])
      logic(tag) == LET hit == SelectSeq(es, LAMBDA e : e.key = <<"$" \o tag>>) IN
                    IF hit = <<>> THEN <<>>
                    ELSE IF tag = "not" THEN <<Not(ParseMap(hit[1].items[1]))>>
                    ELSE <<FNode(tag, [i \in 1..Len(hit[1].items[1].items) |-> ParseMap(hit[1].items[1].items[i])])>>
      conj == atoms \o logic("not") \o logic("and") \o logic("or")
  IN IF conj = <<>> THEN All ELSE IF Len(conj) = 1 THEN conj[1] ELSE And(conj)
Parse(s) == IF s.form \in {"py", "json1"} THEN ParseMap(s.node) ELSE ParseMap(ParseTokens(s.toks))

\* normal form: $and / $or are associative, commutative, idempotent; {} is the empty conjunction
RECURSIVE NF(_)
RECURSIVE ConjSet(_)
ConjSet(f) == CASE f.tag = "all" -> {}
                [] f.tag = "and" -> UNION {ConjSet(f.kids[i]) : i \in 1..Len(f.kids)}
                [] OTHER -> {NF(f)}
NF(f) ==
  CASE f.tag = "atom" -> [tag |-> "atom", path |-> f.path, op |-> f.op, arg |-> f.arg, ks |-> {}]
    [] f.tag = "not"  -> [tag |-> "not", path |-> <<>>, op |-> "", arg |-> Abs, ks |-> {NF(f.kids[1])}]
    [] f.tag = "or"   -> [tag |-> "or", path |-> <<>>, op |-> "", arg |-> Abs, ks |-> {NF(f.kids[i]) : i \in 1..Len(f.kids)}]
    [] OTHER -> LET cs == ConjSet(f) IN
                IF Cardinality(cs) = 1 THEN CHOOSE x \in cs : TRUE
                ELSE [tag |-> "and", path |-> <<>>, op |-> "", arg |-> Abs, ks |-> cs]
SameFilter(f, g) == NF(f) = NF(g)

-----------------------------------------------------------------------------
(* cases: one filter per initial state (reusing Query's variables: corpus = <<>>, stack = <<f>>) *)
SFilters == IF MODE = "file" THEN Filters ELSE IF MODE # "spell" THEN <<>>
            ELSE SetToSeq(FiltersD1 \cup RandomSubset(NSPELL, FiltersD2 \cup FiltersD3))
SpellInit == \E fi \in 1..Len(SFilters) : corpus = <<>> /\ stack = <<SFilters[fi]>>
SpellNext == UNCHANGED vars

\* requirements
AllSpellingsDenote == \A s \in Spellings(Top) : SameFilter(Parse(s), Top)
CanonicalIsConcrete == Sp("py", SpellF(Top, Canonical), <<>>) \in Spellings(Top)
RECURSIVE ArgsOf(_)
ArgsOf(f) == IF f.tag = "atom" THEN {f.arg} \cup (IF f.arg.t = "list" THEN {f.arg.l[i] : i \in 1..Len(f.arg.l)} ELSE {})
             ELSE UNION {ArgsOf(f.kids[i]) : i \in 1..Len(f.kids)}
CastRoundTrip == \A v \in ArgsOf(Top) : CliSimple(v) => (CastDefined(Token(v)) /\ JEq(Cast(Token(v)), v))
CastOrder ==   \* literal tokens: keyword before int before float before str
  /\ Cast(<<49>>) = I(1) /\ Cast(<<49, 46, 48>>) = F(1, 1) /\ Cast(<<45, 50, 46, 53>>) = F(0 - 5, 2)
  /\ Cast(cTrue) = B(TRUE) /\ Cast(<<84, 114, 117, 101>>) = S(<<84, 114, 117, 101>>) /\ Cast(<<49, 97>>) = S(<<49, 97>>)
  /\ ~CliSimple(S(<<49>>)) /\ ~CliSimple(S(cNull)) /\ ~CliSimple(S(<<49, 101, 51>>)) /\ CliSimple(S(<<97, 98>>))

\* export: per filter its spellings; for token forms also the mapping parse_filter_arg must return
SpellLine(fi) ==
  LET f == SFilters[fi]  ss == SetToSeq(Spellings(f)) IN
  [fi |-> fi, filter |-> f,
   spellings |-> [i \in 1..Len(ss) |->
      [form |-> ss[i].form, node |-> ss[i].node, toks |-> ss[i].toks,
       parsed |-> IF ss[i].form \in {"cli", "str"} THEN ParseTokens(ss[i].toks) ELSE ss[i].node]]]
SpellExport ==
  /\ TLCGet("level") >= 0
  /\ ndJsonSerialize(IOEnv.SPELL_OUT, [fi \in 1..Len(SFilters) |-> SpellLine(fi)])
=============================================================================

------------------------------ MODULE Spelling ------------------------------
(* C07, first half: every spelling of a query denotes the same abstract filter.

   An abstract filter (Query.tla) can be written in many concrete ways. This module
     - defines concrete syntax trees (CST) for Python mappings and command-line token lists -
       "spelling descriptors" which the harness renders mechanically (join key components with ".",
       json.dumps a node, chr() the code points of a raw token; no decisions);
     - produces Spellings(f), the closure of the canonical spelling under the rewrite rules
         R1  dotted key  <->  nested mapping (fully, or first component only)
         R2  explicit "sp." prefix  <->  no prefix            (state point keys only)
         R3  operator as nested mapping {"k": {"$op": x}}  <->  key suffix {"k.$op": x}
         R4  mapping  <->  command-line tokens  k v k v ...   where CliExpressible
         R5  whole filter as one JSON token
         R6  {"$and": [..]}  <->  one flat mapping, where the keys do not clash
         R7  token list  <->  one whitespace separated string given to find_jobs
       (the rules commute, so the closure is the image of the product of their on/off choices;
        the style may differ from operand to operand);
     - specifies the front ends: Cast / Token (filterparse._cast), ParseTokens (parse_filter_arg /
       parse_simple / _parse_single) and ParseMap (_add_prefix, _nested_dicts_to_dotted_keys, and the
       order in which _find_result consumes a mapping);
     - states the requirement  AllSpellingsDenote:  Parse(s) and f have the same normal form for every
       s in Spellings(f), and  CastRoundTrip:  Cast(Token(v)) = v for every CLI-simple value.
   TLC checks both on every generated filter and exports the descriptors together with the mapping the
   spec says parse_filter_arg must return for each token list. *)
EXTENDS Query

CONSTANT NSPELL       \* universe mode: number of sampled compound filters (all atoms are always included)

-----------------------------------------------------------------------------
(* concrete syntax trees *)
CLit(v)      == [k |-> "lit",  key |-> <<>>, v |-> v,   items |-> <<>>]
CMap(ents)   == [k |-> "map",  key |-> <<>>, v |-> Abs, items |-> ents]    \* ents: sequence of CEnt
CEnt(key, x) == [k |-> "ent",  key |-> key,  v |-> Abs, items |-> <<x>>]   \* key: components, joined with "."
CList(xs)    == [k |-> "list", key |-> <<>>, v |-> Abs, items |-> xs]
NoNode == CLit(Abs)
\* tokens: "key" (components joined with "."), "raw" (the code points cp), "json" (json.dumps of node)
TKey(comps) == [k |-> "key",  key |-> comps, cp |-> <<>>, node |-> NoNode]
TRaw(cp)    == [k |-> "raw",  key |-> <<>>,  cp |-> cp,   node |-> NoNode]
TJson(n)    == [k |-> "json", key |-> <<>>,  cp |-> <<>>, node |-> n]
\* a spelling: form "py" (mapping given to find_jobs), "json1" (one JSON token on the command line),
\* "cli" (token list on the command line), "str" (tokens joined by blanks, given to find_jobs)
Sp(form, node, toks) == [form |-> form, node |-> node, toks |-> toks, alt |-> ""]
\* alt: the kind of non-canonical number token used in a token spelling ("" = canonical tokens)

-----------------------------------------------------------------------------
(* Cast and Token: filterparse._cast on code point sequences *)
cTrue == <<116, 114, 117, 101>>   cFalse == <<102, 97, 108, 115, 101>>   cNull == <<110, 117, 108, 108>>
cBang == <<33>>
IsDigits(s) == s # <<>> /\ \A i \in 1..Len(s) : s[i] \in 48..57
RECURSIVE DigitsVal(_)
DigitsVal(s) == IF s = <<>> THEN 0 ELSE 10 * DigitsVal(SubSeq(s, 1, Len(s) - 1)) + (s[Len(s)] - 48)
Signed(s) == s # <<>> /\ Head(s) \in {43, 45}
Unsigned(s) == IF Signed(s) THEN Tail(s) ELSE s
SignOf(s) == IF s # <<>> /\ Head(s) = 45 THEN 0 - 1 ELSE 1
\* CC1 (calibrated rule): after the three keywords, the token grammar is the literal grammar of Python's int() and then
\* float(), restricted to finite values (inf / infinity / nan are left unspecified and never generated):
\*   token   ::= ws* [+-] number ws*                       ws: blank, \t \n \v \f \r, \x1c-\x1f
\*   digits  ::= digit (["_"] digit)*                       (an underscore only between two digits)
\*   int()   ::= digits                                     (leading zeros allowed: "007" is 7)
\*   float() ::= (digits ["." [digits]] | "." digits) [(e|E) [+-] digits]
\* int() is tried first, so "10" is the int 10 and "1e1", "10.", "1_0.0" are the float 10.0.
WS == {32, 9, 10, 11, 12, 13, 28, 29, 30, 31}
RECURSIVE TrimL(_)
TrimL(s) == IF s # <<>> /\ Head(s) \in WS THEN TrimL(Tail(s)) ELSE s
RECURSIVE TrimR(_)
TrimR(s) == IF s # <<>> /\ s[Len(s)] \in WS THEN TrimR(SubSeq(s, 1, Len(s) - 1)) ELSE s
Trim(s) == TrimR(TrimL(s))
DigitPart(u) == /\ u # <<>> /\ \A i \in 1..Len(u) : u[i] \in (48..57) \cup {95}
                /\ u[1] # 95 /\ u[Len(u)] # 95 /\ \A i \in 1..(Len(u) - 1) : ~(u[i] = 95 /\ u[i + 1] = 95)
NoU(u) == SelectSeq(u, LAMBDA c : c # 95)
Body(s) == Unsigned(Trim(s))                        \* the number without blanks and sign
IsIntLit(s) == DigitPart(Body(s)) /\ Len(NoU(Body(s))) <= 7
IntVal(s) == I(SignOf(Trim(s)) * DigitsVal(NoU(Body(s))))
\* split the body of a float literal into mantissa / exponent and the mantissa into integer / fraction digits
EPos(u) == {i \in 1..Len(u) : u[i] \in {101, 69}}
DotPos(u) == {i \in 1..Len(u) : u[i] = 46}
Mant(u) == IF EPos(u) = {} THEN u ELSE SubSeq(u, 1, (CHOOSE i \in EPos(u) : TRUE) - 1)
Expo(u) == IF EPos(u) = {} THEN <<>> ELSE SubSeq(u, (CHOOSE i \in EPos(u) : TRUE) + 1, Len(u))
IntDigits(m) == IF DotPos(m) = {} THEN m ELSE SubSeq(m, 1, (CHOOSE i \in DotPos(m) : TRUE) - 1)
FracDigits(m) == IF DotPos(m) = {} THEN <<>> ELSE SubSeq(m, (CHOOSE i \in DotPos(m) : TRUE) + 1, Len(m))
IsFloatLit(s) ==
  LET u == Body(s)  m == Mant(u)  e == Expo(u)  ip == IntDigits(m)  fp == FracDigits(m) IN
  /\ Cardinality(EPos(u)) <= 1 /\ Cardinality(DotPos(m)) <= 1 /\ DotPos(e) = {}
  /\ (EPos(u) # {} => DigitPart(Unsigned(e)))
  /\ \/ DigitPart(ip) /\ (fp = <<>> \/ DigitPart(fp))
     \/ ip = <<>> /\ DotPos(m) # {} /\ DigitPart(fp)
  /\ Len(NoU(ip)) + Len(NoU(fp)) <= 6 /\ Len(NoU(Unsigned(e))) <= 1          \* bounds of the model (32-bit integers)
  /\ LET sh == SignOf(e) * DigitsVal(NoU(Unsigned(e))) - Len(NoU(fp)) IN sh >= 0 - 6 /\ sh <= 3
RECURSIVE Gcd(_, _)
Gcd(a, b) == IF b = 0 THEN a ELSE Gcd(b, a % b)
Pow10(k) == 10 ^ k
FloatVal(s) ==
  LET u == Body(s)  m == Mant(u)  e == Expo(u)  ip == NoU(IntDigits(m))  fp == NoU(FracDigits(m))
      mant == DigitsVal(ip \o fp)
      sh == SignOf(e) * DigitsVal(NoU(Unsigned(e))) - Len(fp)                \* value = mant * 10^sh
      num == IF sh >= 0 THEN mant * Pow10(sh) ELSE mant
      den == IF sh >= 0 THEN 1 ELSE Pow10(0 - sh)
      g == Gcd(num, den)
  IN IF num = 0 THEN F(0, 1) ELSE F(SignOf(Trim(s)) * (num \div g), den \div g)
\* anything int()/float() might accept beyond the grammar and bounds above: digits, sign, ".", "_", e/E, white space,
\* inf / infinity / nan.  For such tokens Cast is deliberately left unspecified (they are never generated).
Lower(c) == IF c \in 65..90 THEN c + 32 ELSE c
LowerSeq(s) == [i \in 1..Len(s) |-> Lower(s[i])]
NumberLike(s) ==
  \/ s # <<>> /\ (\A i \in 1..Len(s) : s[i] \in (48..57) \cup {43, 45, 46, 95, 101, 69} \cup WS)
              /\ (\E i \in 1..Len(s) : s[i] \in 48..57)
  \/ LowerSeq(Body(s)) \in {<<105, 110, 102>>, <<105, 110, 102, 105, 110, 105, 116, 121>>, <<110, 97, 110>>}
CastDefined(s) == s \in {cTrue, cFalse, cNull} \/ IsIntLit(s) \/ IsFloatLit(s) \/ ~NumberLike(s)
Cast(s) ==     \* the order of the cases is the order of the try-blocks in _cast
  CASE s = cTrue  -> B(TRUE)
    [] s = cFalse -> B(FALSE)
    [] s = cNull  -> Null
    [] IsIntLit(s) -> IntVal(s)
    [] IsFloatLit(s) -> FloatVal(s)
    [] OTHER -> S(s)

RECURSIVE NatText(_)
NatText(k) == IF k < 10 THEN <<48 + k>> ELSE NatText(k \div 10) \o <<48 + (k % 10)>>
IntText(k) == IF k < 0 THEN <<45>> \o NatText(0 - k) ELSE NatText(k)
RECURSIVE FracText(_, _)
FracText(r, q) == IF r = 0 THEN <<>> ELSE <<48 + ((r * 10) \div q)>> \o FracText((r * 10) % q, q)
\* repr() of the float p/q (q a power of two, magnitude in the fixed-notation range): exact decimal expansion
FloatText(v) == LET a == IAbs(v.n) fr == FracText(a % v.d, v.d) IN
                (IF v.n < 0 THEN <<45>> ELSE <<>>) \o NatText(a \div v.d) \o <<46>> \o (IF fr = <<>> THEN <<48>> ELSE fr)
Token(v) == CASE v.t = "bool" -> IF v.n = 1 THEN cTrue ELSE cFalse
              [] v.t = "null" -> cNull
              [] v.t = "int"  -> IntText(v.n)
              [] v.t = "flt"  -> FloatText(v)
              [] OTHER -> v.s
JsonLike(s)  == s # <<>> /\ ((Head(s) = 123 /\ s[Len(s)] = 125) \/ (Head(s) = 91 /\ s[Len(s)] = 93))
RegexLike(s) == s # <<>> /\ Head(s) = 47 /\ s[Len(s)] = 47
\* can the value be written as one plain command-line token?  (a string that looks like a number, a keyword,
\* JSON, a /regex/ or "!" cannot: it needs the JSON form)
CliSimple(v) ==
  \/ v.t \in {"bool", "null", "int"}
  \/ v.t = "flt" /\ IsFloatLit(FloatText(v))
  \/ v.t = "str" /\ v.s # <<>> /\ CastDefined(v.s) /\ Cast(v.s) = S(v.s) /\ ~JsonLike(v.s) /\ ~RegexLike(v.s) /\ v.s # cBang
HasBlank(s) == \E i \in 1..Len(s) : s[i] \in {32, 9, 10, 11, 12, 13}

\* non-canonical spellings of a number that int() / float() read as the same value (CC1): a leading "+", leading (and
\* trailing) zeros, a trailing or leading dot, a digit-group underscore, exponent forms, surrounding blanks.
\* <<>> where the kind does not apply to the value.
AltKinds == {"plus", "zeros", "dotend", "dotstart", "under", "exp", "EXP", "blank"}
AltToken(v, kind) ==
  LET a == IAbs(v.n)
      sg == IF v.n < 0 THEN <<45>> ELSE <<>>
      ip == NatText(a \div v.d)
      fr == IF v.t = "flt" THEN FracText(a % v.d, v.d) ELSE <<>>
      frz == IF fr = <<>> THEN <<48>> ELSE fr
      under(t) == <<t[1], 95>> \o Tail(t)
  IN IF v.t = "int" THEN
       CASE kind = "plus"  -> IF v.n >= 0 THEN <<43>> \o ip ELSE <<>>
         [] kind = "zeros" -> sg \o <<48, 48>> \o ip                                        \* 007
         [] kind = "under" -> IF Len(ip) >= 2 THEN sg \o under(ip) ELSE <<>>                \* 1_0  1_000
         [] kind = "blank" -> <<32>> \o sg \o ip \o <<32>>
         [] OTHER -> <<>>
     ELSE IF v.t = "flt" THEN
       CASE kind = "plus"  -> IF v.n >= 0 THEN <<43>> \o ip \o <<46>> \o frz ELSE <<>>
         [] kind = "zeros" -> sg \o <<48>> \o ip \o <<46>> \o frz \o <<48>>                 \* 01.50
         [] kind = "dotend" -> IF fr = <<>> THEN sg \o ip \o <<46>> ELSE <<>>               \* 5.
         [] kind = "dotstart" -> IF a \div v.d = 0 THEN sg \o <<46>> \o frz ELSE <<>>       \* .5  -.5
         [] kind = "under" -> IF Len(ip) >= 2 THEN sg \o under(ip) \o <<46>> \o frz
                              ELSE IF Len(frz) >= 2 THEN sg \o ip \o <<46>> \o under(frz) ELSE <<>>
         [] kind = "exp"   -> sg \o NatText(DigitsVal(ip \o frz)) \o <<101, 45>> \o NatText(Len(frz))   \* 25e-1  5e-1
         [] kind = "EXP"   -> IF fr = <<>> THEN sg \o ip \o <<69, 48>> ELSE sg \o ip \o <<46>> \o frz \o <<69, 48>>   \* 1E0  2.5E0
         [] kind = "blank" -> <<32>> \o sg \o ip \o <<46>> \o frz \o <<32>>
         [] OTHER -> <<>>
     ELSE <<>>
\* the value token in variant `kind` ("canon": Token(v))
TokenV(v, kind) == IF kind # "canon" /\ AltToken(v, kind) # <<>> THEN AltToken(v, kind) ELSE Token(v)

-----------------------------------------------------------------------------
(* rendering an abstract filter in a style *)
Styles == [kf : {"dot", "nest", "half"}, pfx : BOOLEAN, opf : {"nest", "suffix"}]
Rot(sts, k) == [i \in 1..Len(sts) |-> sts[((i + k - 1) % Len(sts)) + 1]]

\* R2: the "sp." prefix may be dropped from a state point key - the DEFAULT namespace - whatever the key's name is
\* (names that merely begin with the letters of a namespace, "speed", "spx", "docking", "doc_x", "species.name", are
\* ordinary keys), except when the first component after the prefix IS one of the words "sp" / "doc": a state point
\* key literally named "sp" or "doc" can only be written with the explicit prefix (CS2, calibrated).
KeyComps(a, st) == IF Head(a.path) = "sp" /\ ~st.pfx /\ a.path[2] \notin {"sp", "doc"} THEN Tail(a.path) ELSE a.path
\* entry key components and value node of an atom (R3)
AtomKey(a, st) == IF a.op # "eq" /\ st.opf = "suffix" THEN KeyComps(a, st) \o <<a.op>> ELSE KeyComps(a, st)
AtomVal(a, st) == IF a.op = "eq" \/ st.opf = "suffix" THEN CLit(a.arg) ELSE CMap(<<CEnt(<<a.op>>, CLit(a.arg))>>)
RECURSIVE NestEnt(_, _)
NestEnt(comps, val) == IF Len(comps) = 1 THEN CEnt(comps, val)
                       ELSE CEnt(<<Head(comps)>>, CMap(<<NestEnt(Tail(comps), val)>>))
AtomEnt(a, st) ==                                                                              \* R1
  LET key == AtomKey(a, st)  val == AtomVal(a, st) IN
  CASE st.kf = "dot" -> CEnt(key, val)
    [] st.kf = "nest" -> NestEnt(key, val)
    [] OTHER -> IF Len(key) = 1 THEN CEnt(key, val) ELSE CEnt(<<Head(key)>>, CMap(<<CEnt(Tail(key), val)>>))

RECURSIVE SpellF(_, _)
SpellF(f, sts) ==
  CASE f.tag = "all"  -> CMap(<<>>)
    [] f.tag = "atom" -> CMap(<<AtomEnt(f, sts[1])>>)
    [] f.tag = "not"  -> CMap(<<CEnt(<<"$not">>, SpellF(f.kids[1], Rot(sts, 1)))>>)
    [] OTHER -> CMap(<<CEnt(<<"$" \o f.tag>>, CList([i \in 1..Len(f.kids) |-> SpellF(f.kids[i], Rot(sts, i - 1))]))>>)

\* _add_prefix on the components of a top-level key
PrefixedKey(comps) == IF Head(comps) \in {"sp", "doc"} \/ Head(comps) \in {"$and", "$or", "$not"} THEN comps ELSE <<"sp">> \o comps
\* R6: a conjunction as one flat mapping: plain entries, then at most one $not / $and / $or entry, keys distinct
Conjuncts(f) == IF f.tag = "and" THEN f.kids ELSE <<f>>
ConjEnt(g, sts) == SpellF(g, sts).items[1]
Mergeable(f, sts) ==
  /\ f.tag = "and" /\ Len(f.kids) >= 2
  /\ \A i \in 1..Len(f.kids) : f.kids[i].tag # "all"
  /\ \A i, j \in 1..Len(f.kids) : i < j =>      \* distinct also after _add_prefix ("a" and "sp.a" are one key: see CS1)
        PrefixedKey(ConjEnt(f.kids[i], Rot(sts, i - 1)).key) # PrefixedKey(ConjEnt(f.kids[j], Rot(sts, j - 1)).key)
Merged(f, sts) == CMap([i \in 1..Len(f.kids) |-> ConjEnt(f.kids[i], Rot(sts, i - 1))])

\* R4: command-line tokens for a top-level conjunction
RECURSIVE StringsOK(_)
RECURSIVE NoBlankValue(_)
NoBlankValue(v) == CASE v.t = "str" -> ~HasBlank(v.s)
                     [] v.t = "list" -> \A i \in 1..Len(v.l) : NoBlankValue(v.l[i])
                     [] OTHER -> TRUE
StringsOK(f) == IF f.tag = "atom" THEN NoBlankValue(f.arg) ELSE \A i \in 1..Len(f.kids) : StringsOK(f.kids[i])
\* tokens of one conjunct; <<>> when it cannot be written in this style
ConjTokensV(g, sts, last, kind) ==
  LET st == sts[1] IN
  IF g.tag = "atom" THEN
    LET kc == KeyComps(g, st) IN
    IF g.op # "eq" /\ st.opf = "nest" THEN <<TKey(kc), TJson(AtomVal(g, st))>>                   \* k '{"$op": x}'
    ELSE IF g.op = "$exists" /\ g.arg = B(TRUE) THEN
         IF last /\ st.kf = "dot" THEN <<TKey(kc)>> ELSE <<TKey(kc), TRaw(cBang)>>                \* a lone key, or "key !"
    ELSE IF g.op = "$regex" /\ g.arg.t = "str" THEN <<TKey(kc), TRaw(<<47>> \o g.arg.s \o <<47>>)>>  \* k /re/
    ELSE IF CliSimple(g.arg) THEN <<TKey(AtomKey(g, st)), TRaw(TokenV(g.arg, kind))>>            \* k v   k.$op v
    ELSE IF g.arg.t = "list" THEN <<TKey(AtomKey(g, st)), TJson(CLit(g.arg))>>                   \* k '[1, 2]'
    ELSE <<>>
  ELSE IF g.tag = "all" THEN <<>>
  ELSE LET e == ConjEnt(g, sts) IN <<TKey(e.key), TJson(e.items[1])>>
ConjTokens(g, sts, last) == ConjTokensV(g, sts, last, "canon")
CliTokensV(f, sts, kind) ==
  LET cs == IF f.tag = "all" THEN <<>> ELSE Conjuncts(f)
      tk == [i \in 1..Len(cs) |-> ConjTokensV(cs[i], Rot(sts, i - 1), i = Len(cs), kind)]
  IN IF \E i \in 1..Len(cs) : tk[i] = <<>> THEN <<>> ELSE FlattenSeq(tk)
CliTokens(f, sts) == CliTokensV(f, sts, "canon")
CliExpressible(f, sts) ==
  LET cs == Conjuncts(f) IN
  /\ f.tag # "all"
  /\ \A i \in 1..Len(cs) : ConjTokens(cs[i], Rot(sts, i - 1), i = Len(cs)) # <<>>
  /\ \A i, j \in 1..Len(cs) : i < j => PrefixedKey(ConjTokens(cs[i], Rot(sts, i - 1), FALSE)[1].key) # PrefixedKey(ConjTokens(cs[j], Rot(sts, j - 1), FALSE)[1].key)

StyleSeqs == {<<st>> : st \in Styles} \cup
             {<<[kf |-> "dot", pfx |-> TRUE, opf |-> "nest"], [kf |-> "nest", pfx |-> FALSE, opf |-> "suffix"]>>,
              <<[kf |-> "half", pfx |-> FALSE, opf |-> "suffix"], [kf |-> "dot", pfx |-> FALSE, opf |-> "nest"], [kf |-> "nest", pfx |-> TRUE, opf |-> "nest"]>>}
Canonical == <<[kf |-> "dot", pfx |-> TRUE, opf |-> "nest"]>>
AltStyleSeqs == {<<[kf |-> "dot", pfx |-> FALSE, opf |-> "suffix"]>>, <<[kf |-> "nest", pfx |-> TRUE, opf |-> "suffix"]>>}
NoBlankTok(toks) == \A i \in 1..Len(toks) : toks[i].k = "raw" => ~HasBlank(toks[i].cp)
Spellings(f) ==
  LET py   == {Sp("py", SpellF(f, sts), <<>>) : sts \in StyleSeqs}
      mrg  == {Sp("py", Merged(f, sts), <<>>) : sts \in {x \in StyleSeqs : x[1].kf = "dot" /\ Mergeable(f, x)}}
      j1   == {Sp("json1", s.node, <<>>) : s \in {x \in mrg \cup {Sp("py", SpellF(f, sts), <<>>) : sts \in StyleSeqs \ {<<st>> : st \in Styles}}
                                                       \cup {Sp("py", SpellF(f, Canonical), <<>>)} : x.node.items # <<>>}}     \* R5
      cli  == {Sp("cli", CMap(<<>>), CliTokens(f, sts)) : sts \in {x \in StyleSeqs : CliExpressible(f, x)}}         \* R4
      \* R4 with every plain number token replaced by a non-canonical spelling of the same number (CC1)
      alt  == {[Sp("cli", CMap(<<>>), CliTokensV(f, p[1], p[2])) EXCEPT !.alt = p[2]] :
                 p \in {q \in AltStyleSeqs \X AltKinds : CliExpressible(f, q[1]) /\ CliTokensV(f, q[1], q[2]) # CliTokens(f, q[1])}}
      str  == IF StringsOK(f) THEN {[s EXCEPT !.form = "str"] : s \in {x \in cli \cup alt : NoBlankTok(x.toks)}} ELSE {}  \* R7
  IN py \cup mrg \cup j1 \cup cli \cup alt \cup str

-----------------------------------------------------------------------------
(* the front ends *)
OpNames == Ops \ {"eq"}
\* parse_filter_arg / parse_simple / _parse_single on a token list  ->  the mapping (CST) it returns
ValueOfToken(t) ==
  CASE t.k = "json" -> t.node
    [] t.cp = cBang -> CMap(<<CEnt(<<"$exists">>, CLit(B(TRUE)))>>)
    [] RegexLike(t.cp) -> CMap(<<CEnt(<<"$regex">>, CLit(S(SubSeq(t.cp, 2, Len(t.cp) - 1))))>>)
    [] JsonLike(t.cp) \/ ~CastDefined(t.cp) -> NoNode                        \* not modelled (never generated)
    [] OTHER -> CLit(Cast(t.cp))
ParseTokens(toks) ==
  LET n == (Len(toks) + 1) \div 2 IN
  CMap([i \in 1..n |-> CEnt(toks[2 * i - 1].key,
                            IF 2 * i <= Len(toks) THEN ValueOfToken(toks[2 * i])
                            ELSE CMap(<<CEnt(<<"$exists">>, CLit(B(TRUE)))>>))])
AddPrefix(comps) == PrefixedKey(comps)
\* _nested_dicts_to_dotted_keys: the (dotted key, leaf) pairs below an entry
RECURSIVE FlatEnt(_, _)
FlatEnt(prefix, e) ==
  LET comps == prefix \o e.key   x == e.items[1] IN
  IF x.k = "map" /\ x.items # <<>> THEN FlattenSeq([i \in 1..Len(x.items) |-> FlatEnt(comps, x.items[i])])
  ELSE << <<comps, x>> >>
LeafAtom(pr) ==
  LET comps == pr[1]  lastc == comps[Len(comps)]
      arg == IF pr[2].k = "lit" THEN pr[2].v ELSE M(<<>>) IN
  IF lastc \in OpNames THEN At(SubSeq(comps, 1, Len(comps) - 1), lastc, arg) ELSE At(comps, "eq", arg)
\* a mapping as _find_job_ids / _find_result read it: plain keys (prefixed, flattened) first, then $not, $and, $or
RECURSIVE ParseMap(_)
ParseMap(node) ==
  LET es == node.items
      isLog(e) == e.key \in {<<"$not">>, <<"$and">>, <<"$or">>}
      plain0 == SelectSeq(es, LAMBDA e : ~isLog(e))
      \* CS1 (calibrated): the prefixed filter is rebuilt as a dict, so of two entries that name the same key once with
      \* and once without the "sp." prefix only the later one survives.  Spellings(f) never produces such a mapping.
      keep == {i \in 1..Len(plain0) : ~\E j \in (i + 1)..Len(plain0) : AddPrefix(plain0[j].key) = AddPrefix(plain0[i].key)}
      plain == SelectSeq([i \in 1..Len(plain0) |-> IF i \in keep THEN plain0[i] ELSE NoNode], LAMBDA e : e # NoNode)
      atoms == FlattenSeq([i \in 1..Len(plain) |->
                 LET fl == FlatEnt(<<>>, [plain[i] EXCEPT !.key = AddPrefix(plain[i].key)]) IN
                 [q \in 1..Len(fl) |-> LeafAtom(fl[q])]])
      logic(tag) == LET hit == SelectSeq(es, LAMBDA e : e.key = <<"$" \o tag>>) IN
                    IF hit = <<>> THEN <<>>
                    ELSE IF tag = "not" THEN <<Not(ParseMap(hit[1].items[1]))>>
                    ELSE <<FNode(tag, [i \in 1..Len(hit[1].items[1].items) |-> ParseMap(hit[1].items[1].items[i])])>>
      conj == atoms \o logic("not") \o logic("and") \o logic("or")
  IN IF conj = <<>> THEN All ELSE IF Len(conj) = 1 THEN conj[1] ELSE And(conj)
Parse(s) == IF s.form \in {"py", "json1"} THEN ParseMap(s.node) ELSE ParseMap(ParseTokens(s.toks))

\* normal form: $and / $or are associative, commutative, idempotent; {} is the empty conjunction
RECURSIVE NF(_)
RECURSIVE ConjSet(_)
ConjSet(f) == CASE f.tag = "all" -> {}
                [] f.tag = "and" -> UNION {ConjSet(f.kids[i]) : i \in 1..Len(f.kids)}
                [] OTHER -> {NF(f)}
NF(f) ==
  CASE f.tag = "atom" -> [tag |-> "atom", path |-> f.path, op |-> f.op, arg |-> f.arg, ks |-> {}]
    [] f.tag = "not"  -> [tag |-> "not", path |-> <<>>, op |-> "", arg |-> Abs, ks |-> {NF(f.kids[1])}]
    [] f.tag = "or"   -> [tag |-> "or", path |-> <<>>, op |-> "", arg |-> Abs, ks |-> {NF(f.kids[i]) : i \in 1..Len(f.kids)}]
    [] OTHER -> LET cs == ConjSet(f) IN
                IF Cardinality(cs) = 1 THEN CHOOSE x \in cs : TRUE
                ELSE [tag |-> "and", path |-> <<>>, op |-> "", arg |-> Abs, ks |-> cs]
SameFilter(f, g) == NF(f) = NF(g)

-----------------------------------------------------------------------------
(* cases: one filter per initial state (reusing Query's variables: corpus = <<>>, stack = <<f>>) *)
\* atoms whose numbers have interesting non-canonical spellings: 10 (1_0), 1000 (1_000), 7 (007), 5.0 (5.), 0.5 (.5 5e-1),
\* -0.5 (-.5), 0.25 (0.2_5), 12.5 (1_2.5)
NumberAtoms == {At(PA, "eq", I(10)), At(PA, "eq", I(1000)), At(PA, "eq", I(7)), At(PA, "eq", F(5, 1)), At(PA, "eq", F(1, 2)),
                At(PA, "eq", F(0 - 1, 2)), At(PA, "$ne", F(1, 4)), At(PDX, "$gte", F(25, 2)), At(PNX, "$lt", I(10)),
                And(<<At(PA, "$gt", F(1, 2)), At(PDX, "eq", I(10))>>), At(PA, "eq", I(0 - 2))}
\* keys whose NAME begins with "sp" / "doc" (R2 must treat them like any other key), a key named exactly like a
\* namespace (CS2), in both namespaces, nested, below logical operators, and with null / missing-key semantics
PrefixLikeFilters ==
  LET ks == {<<"sp", "speed">>, <<"sp", "spx">>, <<"sp", "docking">>, <<"sp", "doc_x">>, <<"sp", "species", "name">>,
             <<"sp", "sp">>, <<"doc", "spin">>, <<"doc", "docs">>, <<"doc", "doc">>}
      at == {At(k, "eq", I(1)) : k \in ks} \cup {At(k, "$exists", B(TRUE)) : k \in ks} \cup {At(k, "eq", Null) : k \in ks}
            \cup {At(k, "$gt", I(0)) : k \in ks}
  IN at \cup {Not(At(<<"sp", "speed">>, "eq", I(1))), Not(At(<<"sp", "docking">>, "$exists", B(TRUE))),
              And(<<At(<<"sp", "speed">>, "eq", I(1)), At(<<"sp", "docking">>, "$exists", B(TRUE))>>),
              Or(<<At(<<"sp", "spx">>, "eq", I(1)), At(<<"sp", "species", "name">>, "eq", I(1))>>),
              And(<<Not(At(<<"sp", "doc_x">>, "eq", Null)), At(<<"doc", "docs">>, "eq", I(1))>>),
              And(<<At(<<"sp", "a">>, "eq", Null), At(<<"sp", "speed">>, "$exists", B(FALSE))>>)}
SFilters == IF MODE = "file" THEN Filters ELSE IF MODE # "spell" THEN <<>>
            ELSE SetToSeq(FiltersD1 \cup NumberAtoms \cup PrefixLikeFilters \cup RandomSubset(NSPELL, FiltersD2 \cup FiltersD3))
SpellInit == \E fi \in 1..Len(SFilters) : corpus = <<>> /\ stack = <<SFilters[fi]>>
SpellNext == UNCHANGED vars

\* requirements
AllSpellingsDenote == \A s \in Spellings(Top) : SameFilter(Parse(s), Top)
CanonicalIsConcrete == Sp("py", SpellF(Top, Canonical), <<>>) \in Spellings(Top)
RECURSIVE ArgsOf(_)
ArgsOf(f) == IF f.tag = "atom" THEN {f.arg} \cup (IF f.arg.t = "list" THEN {f.arg.l[i] : i \in 1..Len(f.arg.l)} ELSE {})
             ELSE UNION {ArgsOf(f.kids[i]) : i \in 1..Len(f.kids)}
CastRoundTrip == \A v \in ArgsOf(Top) : CliSimple(v) => (CastDefined(Token(v)) /\ JEq(Cast(Token(v)), v))
\* every non-canonical number token reads as the same number, and is a different text than the canonical token
CastAltTokens == \A v \in {x \in ArgsOf(Top) : x.t \in {"int", "flt"}} : \A k \in AltKinds :
                   LET t == AltToken(v, k) IN t # <<>> => (t # Token(v) /\ CastDefined(t) /\ JEq(Cast(t), v))
CastGrammar ==   \* CC1 on literal examples:  .5  -.5  +1  5.  007  1_000  1E3  5e-1  " 1 "  1_0.5 ; rejected forms stay strings
  /\ Cast(<<46, 53>>) = F(1, 2) /\ Cast(<<45, 46, 53>>) = F(0 - 1, 2) /\ Cast(<<43, 49>>) = I(1) /\ Cast(<<53, 46>>) = F(5, 1)
  /\ Cast(<<48, 48, 55>>) = I(7) /\ Cast(<<49, 95, 48, 48, 48>>) = I(1000) /\ Cast(<<49, 69, 51>>) = F(1000, 1)
  /\ Cast(<<53, 101, 45, 49>>) = F(1, 2) /\ Cast(<<32, 49, 32>>) = I(1) /\ Cast(<<49, 95, 48, 46, 53>>) = F(21, 2)
  /\ Cast(<<49, 95>>) = S(<<49, 95>>) /\ Cast(<<95, 49>>) = S(<<95, 49>>) /\ Cast(<<49, 95, 95, 48>>) = S(<<49, 95, 95, 48>>)
  /\ Cast(<<46>>) = S(<<46>>) /\ Cast(<<49, 101>>) = S(<<49, 101>>) /\ Cast(<<43, 32, 49>>) = S(<<43, 32, 49>>) /\ Cast(<<49, 46, 95, 53>>) = S(<<49, 46, 95, 53>>)
  /\ ~CastDefined(<<105, 110, 102>>) /\ ~CastDefined(<<45, 73, 110, 102, 105, 110, 105, 116, 121>>) /\ ~CastDefined(<<110, 97, 110>>)
CastOrder ==   \* literal tokens: keyword before int before float before str
  /\ Cast(<<49>>) = I(1) /\ Cast(<<49, 46, 48>>) = F(1, 1) /\ Cast(<<45, 50, 46, 53>>) = F(0 - 5, 2)
  /\ Cast(cTrue) = B(TRUE) /\ Cast(<<84, 114, 117, 101>>) = S(<<84, 114, 117, 101>>) /\ Cast(<<49, 97>>) = S(<<49, 97>>)
  /\ ~CliSimple(S(<<49>>)) /\ ~CliSimple(S(cNull)) /\ ~CliSimple(S(<<49, 101, 51>>)) /\ CliSimple(S(<<97, 98>>))

\* export: per filter its spellings; for token forms also the mapping parse_filter_arg must return
SpellLine(fi) ==
  LET f == SFilters[fi]  ss == SetToSeq(Spellings(f)) IN
  [fi |-> fi, filter |-> f,
   spellings |-> [i \in 1..Len(ss) |->
      [form |-> ss[i].form, node |-> ss[i].node, toks |-> ss[i].toks, alt |-> ss[i].alt,
       parsed |-> IF ss[i].form \in {"cli", "str"} THEN ParseTokens(ss[i].toks) ELSE ss[i].node]]]
SpellExport ==
  /\ TLCGet("level") >= 0
  /\ ndJsonSerialize(IOEnv.SPELL_OUT, [fi \in 1..Len(SFilters) |-> SpellLine(fi)])
=============================================================================

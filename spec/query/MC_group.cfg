\* GroupBy.tla: every initial state one (corpus, cursor filter, key, default) case; GROUP_OUT / GROUP_CORPORA name the
\* export files. With INVARIANT ImplMeetsReq instead, TLC reports the requirement violated while G1 / G2 are active.
\* File modes: MODE = "gfile" (GROUP_IN, POSTCONDITION GJudge) and "cfile" (CURSOR_IN, CURSOR_OUT, POSTCONDITION
\* CursorJudge) with INIT GInitIdle.
CONSTANTS
  MODE = "group"
  NCORP = 1
  MAXJOBS = 6
  MAXDEPTH = 4
  FixedD1 = FALSE
  FixedD2 = FALSE
  FixedD3 = FALSE
  FixedG1 = FALSE
  FixedG2 = FALSE
  NGCORP = 6
INIT GInit
NEXT GNext
INVARIANT ReqDisjoint
INVARIANT ReqCovers
INVARIANT ReqLabelIsOwnValue
INVARIANT ReqNoSharedLabel
INVARIANT NoDeviationIsReferenceG
INVARIANT SliceLaws
POSTCONDITION GExport
CHECK_DEADLOCK FALSE

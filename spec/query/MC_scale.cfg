\* Query.tla, MODE = "scale": QUERY_IN names the NDJSON file of large-corpus records, QUERY_OUT the verdicts
CONSTANTS
  MODE = "scale"
  NCORP = 1
  MAXJOBS = 6
  MAXDEPTH = 4
  FixedD1 = TRUE
  FixedD2 = TRUE
  FixedD3 = TRUE
INIT InitScale
NEXT NextCases
INVARIANT CaseOK
INVARIANT NotIsComplement
INVARIANT AndIsMeet
INVARIANT OrIsJoin
INVARIANT Local
POSTCONDITION ScaleJudge
CHECK_DEADLOCK FALSE

\* Query.tla: the requirement of C06 on the conformant model. TLC reports ReqHolds violated while a deviation is
\* active (here D2 only); the driver replays the counterexample on the real code.
CONSTANTS
  MODE = "grid"
  NCORP = 1
  MAXJOBS = 6
  MAXDEPTH = 4
  FixedD1 = TRUE
  FixedD2 = FALSE
  FixedD3 = TRUE
INIT InitCases
NEXT NextCases
INVARIANT ReqHolds
CHECK_DEADLOCK FALSE

\* Query.tla, MODE = "file": QUERY_IN names the NDJSON file of recorded real executions, QUERY_OUT the verdicts
CONSTANTS
  MODE = "file"
  NCORP = 1
  MAXJOBS = 6
  MAXDEPTH = 4
  FixedD1 = FALSE
  FixedD2 = FALSE
  FixedD3 = FALSE
INIT InitCases
NEXT NextCases
INVARIANT CaseOK
INVARIANT NotIsComplement
INVARIANT AndIsMeet
INVARIANT OrIsJoin
INVARIANT Local
POSTCONDITION Judge
CHECK_DEADLOCK FALSE

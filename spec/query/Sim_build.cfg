\* Query.tla, constructor part: tlc -simulate num=1500 -depth 20 -workers 1 -seed S -config Sim_build.cfg Query.tla
\* (QUERY_OUT names the NDJSON file the EmitCase invariant appends cases to)
CONSTANTS
  MODE = "build"
  NCORP = 30
  MAXJOBS = 6
  MAXDEPTH = 4
  FixedD1 = FALSE
  FixedD2 = FALSE
  FixedD3 = FALSE
INIT InitBuild
NEXT NextBuild
INVARIANT CaseOK
INVARIANT NotIsComplement
INVARIANT AndIsMeet
INVARIANT OrIsJoin
INVARIANT Local
INVARIANT EmitCase
CHECK_DEADLOCK FALSE

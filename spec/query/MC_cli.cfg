\* QueryCli.tla: every initial state one (corpus, command line) case; CLI_OUT names the export file
CONSTANTS
  MODE = "cli"
  NCORP = 1
  MAXJOBS = 6
  MAXDEPTH = 4
  FixedD1 = TRUE
  FixedD2 = TRUE
  FixedD3 = TRUE
  NSPELL = 1
  NCLI = 1
  NCMD = 350
INIT CliInit
NEXT CliNext
INVARIANT FindPrintsFind
INVARIANT ShownIsOwnData
INVARIANT SimplifiedIsJsonReading
INVARIANT InvalidPrintsNothing
INVARIANT SelectedDocuments
INVARIANT SelectedStatepoints
POSTCONDITION CliExport
CHECK_DEADLOCK FALSE

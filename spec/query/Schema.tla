------------------------------ MODULE Schema ------------------------------
(* C18: detect_schema() and diff_jobs() are exact summaries of the state points.

   Values are the tagged records of JsonValue.tla.  A float additionally carries whether it is
   integral (b) and, if so, its integer value (n) - float -> text and float -> integrality are
   trusted base (DESIGN 8); this is all Python equality between int / bool / float needs.

   REQUIREMENT (what the property states)
     SchemaReq(S, xc)  keys    = dotted keys of the leaves of all selected jobs (a key that is a
                                 scalar in one job and a mapping in another contributes the key
                                 and the sub-keys)
                       values  = for each key the set of non-mapping values found under it,
                                 grouped by TypeName, TYPE-EXACT (1, 1.0, TRUE stay apart)
                       xc      removes exactly the keys on which ALL selected jobs agree (JEq)
     DiffOf(jobs)      per job the flattened pairs not shared by all jobs, pairs compared as
                       Python compares them (PyEq: 1 = 1.0 = TRUE), re-nested
     DiffReconstructs  diff merged with the common part reconstructs the job's state point

   CONFORMANT MODEL (what the pinned tree does), as named deviations with one switch each:
     DEVIATION D1 (FixedD1 = FALSE): the per-key value index is a Python dict, so bool and int
       values that are == (True/1, False/0) fall into ONE entry: one of them is dropped from the
       schema (which one depends on iteration order) and exclude_const treats the jobs as agreeing.
     DEVIATION D2 (FixedD2 = FALSE): lists are indexed as tuples, compared with ==, so [1], [1.0]
       and [True] fall into one entry as well.
     DEVIATION D3 (FixedD3 = FALSE): the state point itself is indexed under the root key, so a job with an
       EMPTY state point makes the schema list a key "" (no values); exclude_const always drops it.
   Calibrated rule (documentation silent): a mapping is never reported as a value; a job whose
   value under a key is a mapping counts, for exclude_const, as "differs from every scalar".

   Generator spec: every initial state is one corpus.  MODE = "universe": TLC enumerates all corpora
   of 0..MAXJOBS jobs over the mixed-type universe (+ NRANDOM random corpora of up to RANDMAX jobs
   over the larger universe); MODE = "file": corpora AND the results observed on the real code were
   recorded by the harness and TLC judges them (verdict per case).  Everything is exported as NDJSON. *)
EXTENDS JsonValue, TLC, Json, IOUtils, Randomization, FiniteSetsExt

CONSTANTS MODE,      \* "universe" | "file"
          MAXJOBS,   \* exhaustive corpora have 0..MAXJOBS jobs
          NRANDOM,   \* number of random larger corpora
          RANDMAX,   \* their maximal size
          NCLI,      \* number of corpora of the command-line cases (ExportCli)
          FixedD1, FixedD2, FixedD3

---------------------------------------------------------------------------
(* values *)
Flt(txt, isint, k) == [JFlt(txt) EXCEPT !.b = isint, !.n = k]
Abs == [JNull EXCEPT !.t = "abs"]                         \* "key missing" marker, never a value

TypeName(v) == CASE v.t = "null" -> "NoneType" [] v.t = "bool" -> "bool" [] v.t = "int" -> "int"
                 [] v.t = "big" -> "int" [] v.t = "flt" -> "float" [] v.t = "str" -> "str"
                 [] v.t = "list" -> "tuple" [] v.t = "map" -> "dict"

RECURSIVE JEq(_, _)      \* type-exact structural equality
JEq(x, y) == /\ x.t = y.t
             /\ CASE x.t = "list" -> Len(x.l) = Len(y.l) /\ \A i \in 1..Len(x.l) : JEq(x.l[i], y.l[i])
                  [] x.t = "map"  -> DOMAIN x.m = DOMAIN y.m /\ \A k \in DOMAIN x.m : JEq(x.m[k], y.m[k])
                  [] OTHER -> x = y

IsNum(x) == x.t \in {"bool", "int", "flt"}
NumKey(x) == IF x.t = "bool" THEN [int |-> TRUE, n |-> IF x.b THEN 1 ELSE 0, a |-> <<>>]
             ELSE IF x.t = "int" THEN [int |-> TRUE, n |-> x.n, a |-> <<>>]
             ELSE IF x.b THEN [int |-> TRUE, n |-> x.n, a |-> <<>>]
             ELSE [int |-> FALSE, n |-> 0, a |-> x.a]
RECURSIVE PyEq(_, _)     \* Python ==
PyEq(x, y) == IF IsNum(x) /\ IsNum(y) THEN NumKey(x) = NumKey(y)
              ELSE /\ x.t = y.t
                   /\ CASE x.t = "list" -> Len(x.l) = Len(y.l) /\ \A i \in 1..Len(x.l) : PyEq(x.l[i], y.l[i])
                        [] x.t = "map"  -> DOMAIN x.m = DOMAIN y.m /\ \A k \in DOMAIN x.m : PyEq(x.m[k], y.m[k])
                        [] OTHER -> x = y

---------------------------------------------------------------------------
(* flattening: leaves of a state point; a leaf is a non-mapping value or an empty mapping *)
RECURSIVE Leaves(_, _)
Leaves(v, pre) == IF v.t = "map" /\ DOMAIN v.m # {}
                  THEN UNION {Leaves(v.m[k], Append(pre, k)) : k \in DOMAIN v.m}
                  ELSE IF pre = <<>> THEN {} ELSE {[k |-> pre, v |-> v]}
Pairs(j) == Leaves(j, <<>>)
Dotted(k) == JoinSeqs(k, <<46>>)

RECURSIVE At(_, _)       \* value under a key path: descends through mappings only
At(v, k) == IF k = <<>> THEN [ex |-> TRUE, v |-> v]
            ELSE IF v.t = "map" /\ Head(k) \in DOMAIN v.m THEN At(v.m[Head(k)], Tail(k))
            ELSE [ex |-> FALSE, v |-> JNull]

KeysOf(S)     == {p.k : p \in UNION {Pairs(j) : j \in S}}
Vals(S, k)    == {At(j, k).v : j \in {i \in S : At(i, k).ex}}
Scal(S, k)    == {v \in Vals(S, k) : v.t # "map"}
HasMap(S, k)  == \E v \in Vals(S, k) : v.t = "map"
AllHave(S, k) == \A j \in S : At(j, k).ex

---------------------------------------------------------------------------
(* REQUIREMENT *)
ConstReq(S, k)   == AllHave(S, k) /\ \A i, j \in S : JEq(At(i, k).v, At(j, k).v)
ReqKeys(S, xc)   == {k \in KeysOf(S) : ~(xc /\ ConstReq(S, k))}
ReqTriples(S, xc) == UNION {{[k |-> Dotted(k), t |-> TypeName(v), v |-> v] : v \in Scal(S, k)} : k \in ReqKeys(S, xc)}

(* CONFORMANT MODEL: the value index of one key partitions the values into classes *)
IdxEq(x, y) == \/ JEq(x, y)
               \/ ~FixedD1 /\ x.t \in {"bool", "int"} /\ y.t \in {"bool", "int"} /\ NumKey(x) = NumKey(y)   \* DEVIATION D1
               \/ ~FixedD2 /\ x.t = "list" /\ y.t = "list" /\ PyEq(x, y)                                     \* DEVIATION D2
Classes(S, k)  == {{w \in Scal(S, k) : IdxEq(v, w)} : v \in Scal(S, k)}
NIdx(S, k)     == Cardinality(Classes(S, k)) + (IF HasMap(S, k) THEN 1 ELSE 0)
ConstDev(S, k) == NIdx(S, k) = 1 /\ AllHave(S, k)
RootKey(S)     == IF ~FixedD3 /\ \E j \in S : DOMAIN j.m = {} THEN {<<>>} ELSE {}                        \* DEVIATION D3
DevKeys(S, xc) == {k \in KeysOf(S) \cup RootKey(S) : ~(xc /\ ConstDev(S, k))}
Deviates(S, xc) == \/ DevKeys(S, xc) # ReqKeys(S, xc)
                   \/ \E k \in DevKeys(S, xc) : \E c \in Classes(S, k) : Cardinality(c) > 1
DevTags(S, xc) == {"D1" : k \in {k \in KeysOf(S) : \E c \in Classes(S, k) : \E x, y \in c : x # y /\ x.t # "list"}}
                  \cup {"D2" : k \in {k \in KeysOf(S) : \E c \in Classes(S, k) : \E x, y \in c : x # y /\ x.t = "list"}}
                  \cup {"D3" : k \in DevKeys(S, xc) \cap {<<>>}}

(* a real result (keys, triples) is accepted by the conformant model iff it has the model's keys and exactly
   one representative of every class, filed under the representative's own type *)
RealKeys(r)    == {r.rkeys[i] : i \in 1..Len(r.rkeys)}
RealTriples(r) == {[k |-> r.rtriples[i].k, t |-> r.rtriples[i].t, v |-> FromWire(r.rtriples[i].v)] : i \in 1..Len(r.rtriples)}
MatchesReq(S, xc, r) == RealKeys(r) = {Dotted(k) : k \in ReqKeys(S, xc)} /\ RealTriples(r) = ReqTriples(S, xc)
MatchesDev(S, xc, r) ==
  /\ RealKeys(r) = {Dotted(k) : k \in DevKeys(S, xc)}
  /\ \A k \in DevKeys(S, xc) : \A c \in Classes(S, k) :
        Cardinality({x \in RealTriples(r) : x.k = Dotted(k) /\ x.v \in c /\ x.t = TypeName(x.v)}) = 1
  /\ \A x \in RealTriples(r) : \E k \in DevKeys(S, xc) : x.k = Dotted(k) /\ x.v \in Scal(S, k) /\ x.t = TypeName(x.v)
  /\ Cardinality(RealTriples(r)) = Cardinality(UNION {{<<k, c>> : c \in Classes(S, k)} : k \in DevKeys(S, xc)})
Verdict(S, xc, r) == IF r.exc # "" THEN "reject"
                     ELSE IF MatchesReq(S, xc, r) THEN "exact"
                     ELSE IF MatchesDev(S, xc, r) THEN "dev" ELSE "reject"

---------------------------------------------------------------------------
(* diff_jobs *)
SharedBy(js, p)    == \A i \in 1..Len(js) : \E q \in Pairs(js[i]) : q.k = p.k /\ PyEq(q.v, p.v)
DiffPairs(js, i)   == {p \in Pairs(js[i]) : ~SharedBy(js, p)}
CommonPairs(js, i) == Pairs(js[i]) \ DiffPairs(js, i)

RECURSIVE Nest(_)        \* set of [k (non-empty key path), v] -> nested mapping
Nest(ps) == LET heads == {Head(p.k) : p \in ps} IN
            JMap([h \in heads |-> LET sub == {p \in ps : Head(p.k) = h} IN
                                  IF \E p \in sub : Len(p.k) = 1 THEN (CHOOSE p \in sub : Len(p.k) = 1).v
                                  ELSE Nest({[k |-> Tail(p.k), v |-> p.v] : p \in sub})])
RECURSIVE Merge(_, _)    \* deep merge of two mappings, left wins on non-mapping conflicts
Merge(x, y) == JMap([k \in DOMAIN x.m \cup DOMAIN y.m |->
                 IF k \in DOMAIN x.m /\ k \in DOMAIN y.m
                 THEN (IF x.m[k].t = "map" /\ y.m[k].t = "map" THEN Merge(x.m[k], y.m[k]) ELSE x.m[k])
                 ELSE IF k \in DOMAIN x.m THEN x.m[k] ELSE y.m[k]])
DiffOf(js, i) == Nest(DiffPairs(js, i))
\* each diff merged with the common part (taken from ANY job, here the first) reconstructs that job's state point
DiffReconstructsSeq(js) == \A i \in 1..Len(js) : PyEq(Merge(DiffOf(js, i), Nest(CommonPairs(js, 1))), js[i])
DiffDisjoint(js) == \A i \in 1..Len(js) : \A p \in DiffPairs(js, i) : \E j \in 1..Len(js) :
                        ~\E q \in Pairs(js[j]) : q.k = p.k /\ PyEq(q.v, p.v)

---------------------------------------------------------------------------
(* bounded universes *)
KA == <<97>>  KB == <<98>>  KN == <<110>>  KX == <<120>>  KY == <<121>>
K0 == <<48>>  K1 == <<49>>  K10 == <<49, 48>>      \* DIGIT-NAMED keys "0" "1" "10": a dotted key a.0 names the entry "0" of a
                                                   \* MAPPING a - never position 0 of a list stored under a by another job (At descends
                                                   \* through mappings only)
F1 == Flt(<<49, 46, 48>>, TRUE, 1)             \* 1.0
F0 == Flt(<<48, 46, 48>>, TRUE, 0)             \* 0.0
FH == Flt(<<48, 46, 53>>, FALSE, 0)            \* 0.5
ValsA == {JInt(1), F1, JBool(TRUE), JStr(<<49>>), JNull, JInt(2),
          JList(<<JInt(1)>>), JList(<<F1>>),
          JMap(KX :> JInt(1)), JMap(KX :> F1),
          JMap(K0 :> JInt(1)), JMap(K0 :> JInt(2))}        \* next to the lists [1], [1.0] under the same key
MkSP(f) == JMap([k \in {k \in DOMAIN f : f[k] # Abs} |-> f[k]])
SmallSPs == {MkSP(KA :> va @@ KB :> vb) : va \in ValsA \cup {Abs}, vb \in {Abs, JInt(0)}}
ValsA2 == ValsA \cup {JBool(FALSE), JInt(0), F0, FH, JStr(<<228, 32, 98>>), JList(<<>>), JList(<<JInt(1), JInt(2)>>),
                      JList(<<JBool(TRUE)>>), JMap(KX :> JBool(TRUE) @@ KY :> JNull),
                      JMap(K0 :> JInt(1) @@ K1 :> JInt(2)), JMap(K10 :> JInt(1)), JList(<<JInt(5), JInt(6)>>),
                      JList(<<JList(<<JInt(5), JInt(6)>>)>>), JMap(K0 :> JMap(K1 :> JInt(6)))}     \* nested list vs a.0.1
ValsN  == {Abs, JInt(1), JMap(KX :> JInt(1)), JMap(KX :> JInt(1) @@ KY :> JList(<<JInt(1), JInt(2)>>)),
           JMap(KX :> JBool(TRUE) @@ KY :> JMap(KA :> JStr(<<49>>)))}
Vals0  == {Abs, Abs, JInt(7), JList(<<JInt(1), JInt(2)>>), JMap(K1 :> JInt(2))}      \* a TOP-LEVEL key called "0"
BigSPs == {MkSP(KA :> va @@ KB :> vb @@ KN :> vn @@ K0 :> v0) : va \in ValsA2 \cup {Abs}, vb \in {Abs, JInt(0), JBool(FALSE), F0},
                                                                vn \in ValsN, v0 \in Vals0}

Exhaustive == UNION {kSubset(n, SmallSPs) : n \in 0..MAXJOBS}
RandomCorpora == {RandomSubset(1 + (i % RANDMAX), BigSPs) : i \in 1..NRANDOM}
FileIn == IF MODE = "file" THEN ndJsonDeserialize(IOEnv.CASES_FILE) ELSE <<>>
CorpusSeqs == IF MODE = "file"
              THEN [i \in 1..Len(FileIn) |-> [n \in 1..Len(FileIn[i].jobs) |-> FromWire(FileIn[i].jobs[n])]]
              ELSE SetToSeq({SetToSeq(C) : C \in Exhaustive \cup RandomCorpora})

\* selections examined per corpus: every subset for small corpora, a sample (always incl. all and none) for larger ones
IdxSets(js) == IF Len(js) <= 3 THEN SUBSET (1..Len(js))
               ELSE {{}, 1..Len(js)} \cup RandomSubset(6, SUBSET (1..Len(js)))
SelSet(js, I) == {js[i] : i \in I}
SubSeq2(js, I) == LET s == SetToSortSeq(I, <) IN [n \in 1..Len(s) |-> js[s[n]]]

---------------------------------------------------------------------------
VARIABLE ci
Init == ci \in 1..Len(CorpusSeqs)
Next == UNCHANGED ci
Corpus == CorpusSeqs[ci]
Shown == [ci |-> ci, corpus |-> Corpus]        \* ALIAS for error traces: the counterexample corpus itself

(* requirements TLC checks on every corpus (all subsets) *)
DiffReconstructs == \A I \in SUBSET (1..Len(Corpus)) : Cardinality(I) <= 4 => DiffReconstructsSeq(SubSeq2(Corpus, I))
DiffMinimal      == \A I \in SUBSET (1..Len(Corpus)) : Cardinality(I) <= 4 => DiffDisjoint(SubSeq2(Corpus, I))
\* the schema lists exactly the leaves of the selected jobs, and nothing of the others
SchemaExact == \A I \in IdxSets(Corpus) : LET S == SelSet(Corpus, I) IN
                 /\ \A j \in S : \A p \in Pairs(j) : p.v.t # "map" =>
                        [k |-> Dotted(p.k), t |-> TypeName(p.v), v |-> p.v] \in ReqTriples(S, FALSE)
                 /\ \A x \in ReqTriples(S, FALSE) : \E j \in S : \E p \in Pairs(j) : Dotted(p.k) = x.k /\ JEq(p.v, x.v)
                 /\ ReqTriples(S, TRUE) \subseteq ReqTriples(S, FALSE)
                 /\ \A k \in ReqKeys(S, FALSE) \ ReqKeys(S, TRUE) : Cardinality(Scal(S, k)) <= 1 /\ AllHave(S, k)
                 /\ \A k \in ReqKeys(S, TRUE) : ~AllHave(S, k) \/ Cardinality(Vals(S, k)) > 1
\* the requirement stated on the conformant model: violated iff a deviation is switched on and reachable
ModelMeetsRequirement == \A I \in IdxSets(Corpus) : \A xc \in BOOLEAN : ~Deviates(SelSet(Corpus, I), xc)

---------------------------------------------------------------------------
(* export *)
TripleW(x) == [k |-> x.k, t |-> x.t, v |-> ToWire(x.v)]
SchemaCase(js, I, xc, real, hasreal) ==
  LET S == SelSet(js, I)
      dev == Deviates(S, xc) IN
  [sel |-> SetToSortSeq(I, <), xc |-> xc,
   keys |-> SetToSeq({Dotted(k) : k \in ReqKeys(S, xc)}),
   triples |-> SetToSeq({TripleW(x) : x \in ReqTriples(S, xc)}),
   dev |-> dev,
   tags |-> IF dev THEN SetToSeq(DevTags(S, xc)) ELSE <<>>,
   dkeys |-> IF dev THEN SetToSeq({Dotted(k) : k \in DevKeys(S, xc)}) ELSE <<>>,
   dcls |-> IF dev THEN SetToSeq(UNION {{[k |-> Dotted(k), c |-> SetToSeq({[t |-> TypeName(v), v |-> ToWire(v)] : v \in c})]
                                          : c \in Classes(S, k)} : k \in DevKeys(S, xc)}) ELSE <<>>,
   verdict |-> IF hasreal THEN Verdict(S, xc, real) ELSE "none"]
DiffCase(js, I) ==
  LET sub == SubSeq2(js, I) IN
  [sel |-> SetToSortSeq(I, <),
   d |-> [i \in 1..Len(sub) |-> ToWire(DiffOf(sub, i))],
   common |-> IF Len(sub) = 0 THEN ToWire(JMap(<<>>)) ELSE ToWire(Nest(CommonPairs(sub, 1)))]
NoReal == [rkeys |-> <<>>, rtriples |-> <<>>, exc |-> ""]
CorpusRec(n) ==
  LET js == CorpusSeqs[n] IN
  IF MODE = "file"
  THEN [jobs |-> [i \in 1..Len(js) |-> ToWire(js[i])],
        schema |-> [m \in 1..Len(FileIn[n].schema) |->
                      LET r == FileIn[n].schema[m] IN SchemaCase(js, {r.sel[i] : i \in 1..Len(r.sel)}, r.xc, r, TRUE)],
        diffs |-> [m \in 1..Len(FileIn[n].diffs) |->
                      LET r == FileIn[n].diffs[m] IN DiffCase(js, {r.sel[i] : i \in 1..Len(r.sel)})]]
  ELSE [jobs |-> [i \in 1..Len(js) |-> ToWire(js[i])],
        schema |-> SetToSeq({SchemaCase(js, I, xc, NoReal, FALSE) : I \in IdxSets(js), xc \in BOOLEAN}),
        diffs |-> SetToSeq({DiffCase(js, I) : I \in {I \in IdxSets(js) : Cardinality(I) <= 4}})]
Export == /\ TLCGet("level") >= 0
          /\ ndJsonSerialize(IOEnv.CASES_OUT, [n \in 1..Len(CorpusSeqs) |-> CorpusRec(n)])

---------------------------------------------------------------------------
(* COMMAND LINE FRONT:  `signac schema [-x] [-t DEPTH] [-p PRECISION] [-r MAXRANGE] [-j ID ... | -f KEY VALUE]`  and
   `signac diff [ID ... | -f KEY VALUE]`, each a fresh process.  A case is the COMPOSITION of operators defined above:
     selection  none -> all jobs;  -j ids -> those jobs;  -f key value -> the jobs whose value under the (top-level) key is
                Python-equal to the value (a calibrated rule of the query engine: 1 finds 1, 1.0 and True; never lists or mappings)
     schema     what is printed = Fmt(SchemaReq(selection, -x)):  one row per key that has values, per row one group per type:
                typename([v1, v2, ...], n) with Python's text of every value - all of them if n <= MAXRANGE, else MAXRANGE - 2
                of them, "...", and two more (WHICH ones depends on Python's sort order and is not part of this model); with
                -p P numbers (bools included: True -> 1) are rounded to P digits before they are printed; with -t DEPTH > 0 the
                keys are nested and everything deeper than DEPTH is printed as {...}
     diff       what is printed = for every selected job its id and DiffOf(selected jobs) of that job
   What the text loses (stated, not checked): str vs other types only through the group's type name; the order of values; which
   values hide behind "..."; a key that is a scalar in one job and a mapping in another cannot be nested (conflict = TRUE: the
   case is exported but not judged when DEPTH > 0). *)
RECURSIVE Digits(_)
Digits(k)  == IF k < 10 THEN <<48 + k>> ELSE Digits(k \div 10) \o <<48 + (k % 10)>>
IntText(k) == IF k < 0 THEN <<45>> \o Digits(0 - k) ELSE Digits(k)
FQ == Flt(<<48, 46, 49, 50, 53>>, FALSE, 0)                          \* 0.125
Round1(v)  == IF v.a = <<48, 46, 49, 50, 53>> THEN <<48, 46, 49>> ELSE v.a      \* str(round(x, 1)) of this universe's floats (trusted table)
RECURSIVE PyRepr(_)
PyStrTuple(v) == <<40>> \o JoinSeqs([i \in 1..Len(v.l) |-> PyRepr(v.l[i])], <<44, 32>>) \o (IF Len(v.l) = 1 THEN <<44, 41>> ELSE <<41>>)
PyStr(v) == CASE v.t = "null" -> <<78, 111, 110, 101>>
              [] v.t = "bool" -> IF v.b THEN <<84, 114, 117, 101>> ELSE <<70, 97, 108, 115, 101>>
              [] v.t = "int"  -> IntText(v.n)
              [] v.t = "flt"  -> v.a
              [] v.t = "str"  -> v.a
              [] v.t = "list" -> PyStrTuple(v)
PyRepr(v) == IF v.t = "str" THEN <<39>> \o v.a \o <<39>> ELSE PyStr(v)
Printed(v, prec) == IF ~prec THEN PyStr(v)
                  ELSE CASE v.t = "bool" -> IF v.b THEN <<49>> ELSE <<48>>          \* round(True, 1) is the int 1
                         [] v.t = "flt"  -> Round1(v)
                         [] OTHER -> PyStr(v)

CliVals == {JInt(1), JInt(2), F1, FQ, JBool(TRUE), JStr(<<228, 32, 98>>), JNull, JList(<<JInt(1), JInt(2)>>),
            JMap(KX :> JInt(1)), JMap(KX :> JStr(<<228, 32, 98>>) @@ KY :> JInt(2))}
CliSPs  == {MkSP(KA :> va @@ KB :> vb) : va \in CliVals \cup {Abs}, vb \in {Abs, JInt(0), JInt(1)}}
CliCorpora == LET all == UNION {kSubset(n, CliSPs) : n \in 0..3} IN
              SetToSeq({SetToSeq(C) : C \in RandomSubset(IF NCLI < Cardinality(all) THEN NCLI ELSE Cardinality(all), all)})
CliFilters == {[k |-> KA, v |-> JInt(1)], [k |-> KA, v |-> JInt(2)], [k |-> KB, v |-> JInt(1)]}
FilterIdx(js, f) == {i \in 1..Len(js) : LET x == At(js[i], <<f.k>>) IN x.ex /\ x.v.t \notin {"map", "list"} /\ PyEq(x.v, f.v)}
NoFilter == [k |-> <<>>, v |-> JNull]
CliSels(js) == {[kind |-> "none", I |-> 1..Len(js), f |-> NoFilter]}
               \cup {[kind |-> "ids", I |-> I, f |-> NoFilter] : I \in SUBSET (1..Len(js)) \ {{}}}
               \cup {[kind |-> "filter", I |-> FilterIdx(js, f), f |-> f] : f \in CliFilters}
CliFmts == {[r |-> 5, prec |-> FALSE, depth |-> 0], [r |-> 2, prec |-> FALSE, depth |-> 0], [r |-> 5, prec |-> TRUE, depth |-> 0],
            [r |-> 5, prec |-> FALSE, depth |-> 1], [r |-> 5, prec |-> FALSE, depth |-> 2]}
Conflict(K) == \E k1, k2 \in K : Len(k1) < Len(k2) /\ SubSeq(k2, 1, Len(k1)) = k1
FmtRows(S, xc, fmt) ==       \* the rows the printed schema must consist of
  LET keys == {k \in ReqKeys(S, xc) : Scal(S, k) # {} /\ (fmt.depth = 0 \/ Len(k) <= fmt.depth)} IN
  {[k |-> Dotted(k),
    groups |-> SetToSeq({[t |-> tn, n |-> Cardinality({v \in Scal(S, k) : TypeName(v) = tn}), ell |-> Cardinality({v \in Scal(S, k) : TypeName(v) = tn}) > fmt.r,
                          texts |-> SetToSeq({Printed(v, fmt.prec) : v \in {v \in Scal(S, k) : TypeName(v) = tn}})]
                         : tn \in {TypeName(v) : v \in Scal(S, k)}})] : k \in keys}
FmtHidden(S, xc, fmt) == IF fmt.depth = 0 THEN {} ELSE {Dotted(SubSeq(k, 1, fmt.depth)) : k \in {k \in ReqKeys(S, xc) : Len(k) > fmt.depth}}
CliSchemaCase(js, sel, xc, fmt) ==
  LET S == SelSet(js, sel.I) IN
  [cmd |-> "schema", kind |-> sel.kind, sel |-> SetToSortSeq(sel.I, <), fk |-> Dotted(<<sel.f.k>>), fv |-> ToWire(sel.f.v),
   xc |-> xc, r |-> fmt.r, prec |-> fmt.prec, depth |-> fmt.depth,
   judged |-> ~Deviates(S, xc) /\ ~(fmt.depth > 0 /\ Conflict(ReqKeys(S, xc))),
   rows |-> SetToSeq(FmtRows(S, xc, fmt)), hidden |-> SetToSeq(FmtHidden(S, xc, fmt))]
CliDiffCase(js, sel) ==
  LET sub == SubSeq2(js, sel.I) IN
  [cmd |-> "diff", kind |-> sel.kind, sel |-> SetToSortSeq(sel.I, <), fk |-> Dotted(<<sel.f.k>>), fv |-> ToWire(sel.f.v),
   d |-> [i \in 1..Len(sub) |-> ToWire(DiffOf(sub, i))]]
CliRec(js) == [jobs |-> [i \in 1..Len(js) |-> ToWire(js[i])],
               cases |-> SetToSeq({CliSchemaCase(js, sel, xc, fmt) : sel \in CliSels(js), xc \in BOOLEAN, fmt \in CliFmts})
                         \o SetToSeq({CliDiffCase(js, sel) : sel \in CliSels(js)})]
\* the command-level promise, checked by TLC on the cases themselves: the rows are exactly the required keys that have values
\* (nothing of unselected jobs), every value of the selection appears in exactly one group of its key, -x hides only agreed keys
CliFaithful == \A n \in 1..Len(CliCorpora) : LET js == CliCorpora[n] IN \A sel \in CliSels(js) : \A xc \in BOOLEAN :
                 LET S == SelSet(js, sel.I)
                     rows == FmtRows(S, xc, [r |-> 5, prec |-> FALSE, depth |-> 0]) IN
                 /\ {r.k : r \in rows} = {Dotted(k) : k \in {k \in ReqKeys(S, xc) : Scal(S, k) # {}}}
                 /\ \A r \in rows : \A i, j \in 1..Len(r.groups) : i # j => r.groups[i].t # r.groups[j].t
                 /\ \A j \in S : \A p \in Pairs(j) : (p.v.t # "map" /\ p.k \in ReqKeys(S, xc)) =>
                        \E r \in rows : r.k = Dotted(p.k) /\ \E i \in 1..Len(r.groups) : r.groups[i].t = TypeName(p.v) /\ PyStr(p.v) \in Range(r.groups[i].texts)
ExportCli == /\ TLCGet("level") >= 0
             /\ CliFaithful
             /\ ndJsonSerialize(IOEnv.CLI_OUT, [n \in 1..Len(CliCorpora) |-> CliRec(CliCorpora[n])])
=============================================================================

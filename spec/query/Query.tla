------------------------------- MODULE Query -------------------------------
(* C06: find_jobs(filter) = the set of jobs whose OWN state point and document satisfy the filter.

   Contents
     1. values (uniform tagged records), Python equality / order / isclose on them
     2. filter AST, jobs, Lookup
     3. Match(job, f) - the per-job reference evaluator (atom semantics = DESIGN Appendix C, the
        "calibrated rules" CR1..CR9 below are the pinned single-job behaviour where the
        documentation is silent), Find(C, f), WellTyped(C, f)
     4. the conformant model of the implementation, ImplOutcomes, = Find + the named deviations
          D1  $type:"bool" is answered from an index that stores 0/False and 1/True under one key
          D2  documents are only loaded when a doc. key occurs outside every $not
          D3  $type:"int"/"float" is answered from an index that stores -1/-1.0 and -2/-2.0 under one key
        each switched off by a boolean constant (FixedD1, FixedD2, FixedD3) once the code is repaired
     5. requirements: NotIsComplement, AndIsMeet, OrIsJoin, Local (theorems about Find, checked on
        every case; the same relations are evaluated on recorded real answers in MODE = "file"),
        ReqHolds (the conformant model meets Find - violated exactly while a deviation is on)
     6. case sources
          MODE = "grid"      calibration grid: 1- and 2-job corpora varying one slot x atoms, Not atom
          MODE = "universe"  sampled corpora of 0..3 jobs x every filter of the bounded grammar
          MODE = "build"     constructor (AddJob / PushAtom / Combine / Negate ...), run with -simulate
          MODE = "file"      (corpus, filter, ids, ...) records of real executions, judged by TLC
          MODE = "scale"     records (one LARGE corpus of 70..200 jobs, a family of filters, the real answers on the large
                             corpus and on small sub-corpora): Find per filter, Explain, and Local across corpus sizes
   Every initial state of the first, second and fourth source is one (corpus, filter) case.
   Strings are sequences of code points (Spelling.tla looks inside them); keys are TLA+ strings. *)
EXTENDS Naturals, Integers, Sequences, FiniteSets, TLC, Json, IOUtils, TLCExt, SequencesExt,
        FiniteSetsExt, Functions, Randomization

CONSTANTS MODE,        \* "grid" | "universe" | "build" | "file" | "scale"  (Spelling.tla: "spell"; GroupBy.tla: "group" | "gfile" | "cfile")
          NCORP,       \* universe: number of sampled corpora per corpus size 2 and 3
          MAXJOBS,     \* build: maximal corpus size
          MAXDEPTH,    \* build: maximal filter depth
          FixedD1,     \* TRUE once $type:"bool" no longer conflates 0/False, 1/True
          FixedD2,     \* TRUE once documents are loaded for doc. keys below $not
          FixedD3      \* TRUE once $type:"int"/"float" no longer conflates -1/-1.0, -2/-2.0

-----------------------------------------------------------------------------
(* 1. values *)
VBase   == [t |-> "abs", n |-> 0, d |-> 1, s |-> <<>>, l |-> <<>>, m |-> <<>>]
Abs     == VBase                                   \* "key not present"
Null    == [VBase EXCEPT !.t = "null"]
B(x)    == [VBase EXCEPT !.t = "bool", !.n = IF x THEN 1 ELSE 0]
I(k)    == [VBase EXCEPT !.t = "int", !.n = k]
F(p, q) == [VBase EXCEPT !.t = "flt", !.n = p, !.d = q]      \* the float p/q, q a power of two (exact in IEEE)
S(cps)  == [VBase EXCEPT !.t = "str", !.s = cps]
L(seq)  == [VBase EXCEPT !.t = "list", !.l = seq]
M(prs)  == [VBase EXCEPT !.t = "map", !.m = prs]    \* prs: sequence of <<key, value>>, distinct keys

MapKeys(v) == {v.m[i][1] : i \in 1..Len(v.m)}
MapGet(v, k) == LET Is == {i \in 1..Len(v.m) : v.m[i][1] = k} IN
                IF Is = {} THEN Abs ELSE v.m[CHOOSE i \in Is : TRUE][2]

IsNum(v) == v.t \in {"int", "flt", "bool"}
NumEq(a, b)   == a.n * b.d = b.n * a.d
NumLess(a, b) == a.n * b.d < b.n * a.d

RECURSIVE StrLess(_, _)                              \* Python's str order (code points)
StrLess(x, y) == IF x = <<>> THEN y # <<>>
                 ELSE IF y = <<>> THEN FALSE
                 ELSE IF Head(x) = Head(y) THEN StrLess(Tail(x), Tail(y))
                 ELSE Head(x) < Head(y)

\* Python ==  on JSON data as the index sees it: 0 = False, 1 = 1.0 = True, lists element-wise.
\* CR1: a mapping-valued key is never equal to a filter argument (the index stores a placeholder).
RECURSIVE PyEq(_, _)
PyEq(a, b) ==
  IF IsNum(a) /\ IsNum(b) THEN NumEq(a, b)
  ELSE IF a.t = "map" \/ b.t = "map" THEN FALSE
  ELSE IF a.t # b.t THEN FALSE
  ELSE IF a.t = "str" THEN a.s = b.s
  ELSE IF a.t = "list" THEN Len(a.l) = Len(b.l) /\ \A i \in 1..Len(a.l) : PyEq(a.l[i], b.l[i])
  ELSE TRUE                                                   \* null = null, abs = abs

\* type-exact equality (1 # 1.0 # True): identity of JSON values, used for "distinct state points"
RECURSIVE JEq(_, _)
JEq(a, b) ==
  IF a.t # b.t THEN FALSE
  ELSE IF IsNum(a) THEN NumEq(a, b)
  ELSE IF a.t = "str" THEN a.s = b.s
  ELSE IF a.t = "list" THEN Len(a.l) = Len(b.l) /\ \A i \in 1..Len(a.l) : JEq(a.l[i], b.l[i])
  ELSE IF a.t = "map" THEN MapKeys(a) = MapKeys(b) /\ \A k \in MapKeys(a) : JEq(MapGet(a, k), MapGet(b, k))
  ELSE TRUE

Comparable(v, a) == (IsNum(v) /\ IsNum(a)) \/ (v.t = "str" /\ a.t = "str")
PyLess(x, y) == IF IsNum(x) THEN NumLess(x, y) ELSE StrLess(x.s, y.s)

\* math.isclose(a, b, rel_tol = rel, abs_tol = abt) in exact rational arithmetic:
\*   |a-b| <= max(rel * max(|a|,|b|), abt).   p/q <= rn*r/(rd*s)  <=>  p*s <= (rn*r*q) \div rd
\* (the division form keeps every intermediate below 2^31 for rel = 1/10^9)
IAbs(x) == IF x < 0 THEN 0 - x ELSE x
IsClose(a, b, rel, abt) ==
  LET p == IAbs(a.n * b.d - b.n * a.d)   q == a.d * b.d          \* |a-b| = p/q
      am == IAbs(a.n) * b.d              bm == IAbs(b.n) * a.d    \* |a| = am/q, |b| = bm/q
      r == IF am > bm THEN am ELSE bm                             \* max(|a|,|b|) = r/q
  IN \/ p = 0
     \/ p * q <= (rel.n * r * q) \div rel.d
     \/ p * abt.d <= abt.n * q
DefaultRel == [VBase EXCEPT !.t = "flt", !.n = 1, !.d = 1000000000]
DefaultAbs == F(0, 1)

-----------------------------------------------------------------------------
(* 2. filters and jobs *)
At(p, op, arg) == [tag |-> "atom", path |-> p, op |-> op, arg |-> arg, kids |-> <<>>]
FNode(tag, ks) == [tag |-> tag, path |-> <<>>, op |-> "", arg |-> Abs, kids |-> ks]
All      == FNode("all", <<>>)          \* the empty filter {} : every job
Not(f)   == FNode("not", <<f>>)
And(fs)  == FNode("and", fs)            \* {"$and": [...]}  (at least one operand)
Or(fs)   == FNode("or", fs)

OrdOps == {"$gt", "$gte", "$lt", "$lte"}
Ops    == {"eq", "$eq", "$ne", "$in", "$nin", "$exists", "$regex", "$type", "$near"} \cup OrdOps

\* code point spellings of the $type names
TN == [int |-> <<105, 110, 116>>, float |-> <<102, 108, 111, 97, 116>>, bool |-> <<98, 111, 111, 108>>,
       str |-> <<115, 116, 114>>, list |-> <<108, 105, 115, 116>>, null |-> <<110, 117, 108, 108>>]
TypeNameOf(v) == IF v.t = "str" /\ \E k \in DOMAIN TN : TN[k] = v.s
                 THEN CHOOSE k \in DOMAIN TN : TN[k] = v.s ELSE "?"

\* a job: [sp |-> map value, doc |-> map value]  (an absent document file is the empty mapping)
Job(sp, doc) == [sp |-> sp, doc |-> doc]
RECURSIVE Lookup(_, _)
Lookup(v, p) == IF p = <<>> THEN v
                ELSE IF v.t = "map" THEN Lookup(MapGet(v, Head(p)), Tail(p))
                ELSE Abs                                  \* indexing into a non-mapping: not present
ValueAt(job, path) == Lookup(IF Head(path) = "doc" THEN job.doc ELSE job.sp, Tail(path))

\* regular expressions are trusted base: the set of (regex, string) pairs for which re.search succeeds
ReTableStatic ==
  { <<<<94, 49, 36>>, <<49>>>>,            \* ^1$ ~ "1"
    <<<<97>>, <<97, 98>>>>,                \* a   ~ "ab"
    <<<<97>>, <<34, 97, 98, 34>>>>, <<<<97>>, <<115, 112, 46, 97>>>>, <<<<97>>, <<97>>>>,   \* a ~ "\"ab\"", "sp.a", "a"  (QueryCli.tla)
    <<<<>>, <<49>>>>, <<<<>>, <<97, 98>>>> }   \* ""  ~ anything

FileIn == IF MODE \in {"file", "scale"} THEN ndJsonDeserialize(IOEnv.QUERY_IN) ELSE <<>>
ReTable == IF MODE \in {"file", "scale"}
           THEN UNION {{<<FileIn[i].re[k][1], FileIn[i].re[k][2]>> : k \in 1..Len(FileIn[i].re)} : i \in 1..Len(FileIn)}
           ELSE ReTableStatic
ReMatch(r, s) == <<r, s>> \in ReTable

-----------------------------------------------------------------------------
(* 3. the reference evaluator *)
NearArg(arg) ==   \* <<x, rel_tol, abs_tol>> as the code unpacks the argument
  IF arg.t = "list"
  THEN <<arg.l[1], IF Len(arg.l) >= 2 THEN arg.l[2] ELSE DefaultRel, IF Len(arg.l) >= 3 THEN arg.l[3] ELSE DefaultAbs>>
  ELSE <<arg, DefaultRel, DefaultAbs>>

TypeIs(v, tn) ==
  CASE tn = "int"   -> v.t \in {"int", "bool"}          \* CR2: bool is an int (isinstance)
    [] tn = "float" -> v.t = "flt"
    [] tn = "bool"  -> v.t = "bool"
    [] tn = "str"   -> v.t = "str"
    [] tn = "list"  -> v.t = "list"
    [] tn = "null"  -> v.t = "null"                     \* CR3: a mapping has no type name
    [] OTHER -> FALSE

\* v is the job's own value at the atom's path (Abs when missing)
\* CR4: every operator except $exists:false requires the key to be present
\*      (so $ne / $nin do not match a missing key but do match None, lists and mappings)
AtomOn(v, a) ==
  IF a.op = "$exists" THEN (v # Abs) = (a.arg.n = 1)
  ELSE /\ v # Abs
       /\ CASE a.op \in {"eq", "$eq"} -> PyEq(v, a.arg)
            [] a.op = "$ne"    -> ~PyEq(v, a.arg)
            [] a.op = "$gt"    -> PyLess(a.arg, v)
            [] a.op = "$gte"   -> ~PyLess(v, a.arg)
            [] a.op = "$lt"    -> PyLess(v, a.arg)
            [] a.op = "$lte"   -> ~PyLess(a.arg, v)
            [] a.op = "$in"    -> \E i \in 1..Len(a.arg.l) : PyEq(v, a.arg.l[i])     \* CR5: a list in the argument matches a list value
            [] a.op = "$nin"   -> \A i \in 1..Len(a.arg.l) : ~PyEq(v, a.arg.l[i])
            [] a.op = "$regex" -> v.t = "str" /\ ReMatch(a.arg.s, v.s)               \* CR6: only strings are searched
            [] a.op = "$type"  -> TypeIs(v, TypeNameOf(a.arg))
            [] a.op = "$near"  -> LET na == NearArg(a.arg) IN IsClose(v, na[1], na[2], na[3])

RECURSIVE Match(_, _)
Match(job, f) ==
  CASE f.tag = "atom" -> AtomOn(ValueAt(job, f.path), f)
    [] f.tag = "all"  -> TRUE
    [] f.tag = "not"  -> ~Match(job, f.kids[1])
    [] f.tag = "and"  -> \A i \in 1..Len(f.kids) : Match(job, f.kids[i])
    [] f.tag = "or"   -> \E i \in 1..Len(f.kids) : Match(job, f.kids[i])

\* a corpus is a sequence of jobs with pairwise different state points; ids are the positions
Ids(C) == 1..Len(C)
Find(C, f) == {i \in Ids(C) : Match(C[i], f)}

\* CR7: ordering operators are defined between numbers (bools as 0/1) and between strings; $near on
\* numbers. Python raises TypeError for the whole query when any job's value under the key is
\* something else, so such (corpus, filter) pairs have no meaning and are excluded here.
\* (Ordering of lists against lists is not modelled: treated as ill-typed, never generated.)
RECURSIVE NoMapInside(_)
NoMapInside(v) == v.t # "map" /\ (v.t = "list" => \A i \in 1..Len(v.l) : NoMapInside(v.l[i]))
ArgOK(a) ==
  CASE a.op \in {"eq", "$eq", "$ne"} -> a.arg # Abs /\ NoMapInside(a.arg)
    [] a.op \in OrdOps  -> IsNum(a.arg) \/ a.arg.t = "str"
    [] a.op \in {"$in", "$nin"} -> a.arg.t = "list" /\ NoMapInside(a.arg)
    [] a.op = "$exists" -> a.arg.t = "bool"
    [] a.op = "$regex"  -> a.arg.t = "str"
    [] a.op = "$type"   -> TypeNameOf(a.arg) # "?"
    [] a.op = "$near"   -> \/ IsNum(a.arg)
                           \/ a.arg.t = "list" /\ Len(a.arg.l) \in 1..3 /\ \A i \in 1..Len(a.arg.l) : IsNum(a.arg.l[i])
    [] OTHER -> FALSE
WellTypedAtom(C, a) ==
  /\ Len(a.path) >= 2 /\ Head(a.path) \in {"sp", "doc"} /\ ArgOK(a)
  /\ a.op \in OrdOps => \A i \in Ids(C) : LET v == ValueAt(C[i], a.path) IN v = Abs \/ Comparable(v, a.arg)
  /\ a.op = "$near"  => \A i \in Ids(C) : LET v == ValueAt(C[i], a.path) IN v = Abs \/ IsNum(v)
RECURSIVE WellTyped(_, _)
WellTyped(C, f) ==
  CASE f.tag = "atom" -> WellTypedAtom(C, f)
    [] f.tag = "all"  -> TRUE
    [] f.tag = "not"  -> Len(f.kids) = 1 /\ WellTyped(C, f.kids[1])
    [] OTHER -> Len(f.kids) >= 1 /\ \A i \in 1..Len(f.kids) : WellTyped(C, f.kids[i])
DistinctSps(C) == \A i, j \in Ids(C) : i < j => ~JEq(C[i].sp, C[j].sp)

-----------------------------------------------------------------------------
(* 4. conformant model of the implementation = reference + named deviations *)
RECURSIVE DocOutsideNot(_)
DocOutsideNot(f) ==
  CASE f.tag = "atom" -> Head(f.path) = "doc"
    [] f.tag \in {"and", "or"} -> \E i \in 1..Len(f.kids) : DocOutsideNot(f.kids[i])
    [] OTHER -> FALSE                     \* _root_keys does not descend into $not
RECURSIVE MentionsDoc(_)
MentionsDoc(f) ==
  CASE f.tag = "atom" -> Head(f.path) = "doc"
    [] f.tag = "all" -> FALSE
    [] OTHER -> \E i \in 1..Len(f.kids) : MentionsDoc(f.kids[i])
\* DEVIATION D2: documents are read only if a doc. key is visible outside every $not
\* (d2 = TRUE: the deviation is active)
LoadedW(f, d2) == IF d2 THEN DocOutsideNot(f) ELSE MentionsDoc(f)
ImplValueAt(job, path, loaded) == IF Head(path) = "doc" /\ ~loaded THEN Abs ELSE ValueAt(job, path)

\* The per-key index is a Python dict. Values that are equal AND hash alike share one entry, whose dict key is the
\* value of whichever job came first in directory-listing order; the type of the other job's value is lost.
\* DEVIATION D1: int n and bool n, n in {0, 1}           (True == 1, hash(True) == hash(1))      -> $type:"bool"
\* DEVIATION D3: int n and float n, n in {-1, -2}         (the _float hash shift +1 lands on CPython's reserved hash
\*               value -1, which is mapped to -2 = hash(-1) = hash(-2))                          -> $type:"int", "float"
\* A conflation class is <<path, n, kind>> with kind "bool" (D1) or "flt" (D3). pick[class] = TRUE means "the non-int
\* (bool, float) came first". The listing order is not part of the abstract state: the model is nondeterministic in pick.
TypePaths(f, names) ==
  LET RECURSIVE TP(_)
      TP(g) == CASE g.tag = "atom" -> IF g.op = "$type" /\ TypeNameOf(g.arg) \in names THEN {g.path} ELSE {}
                 [] g.tag = "all" -> {}
                 [] OTHER -> UNION {TP(g.kids[i]) : i \in 1..Len(g.kids)}
  IN TP(f)
IntOf(v) == v.n \div v.d                                   \* the integer a number equals (when it equals one)
IsInt(v, n) == v.t = "int" /\ v.n = n
IsBoolN(v, n) == v.t = "bool" /\ v.n = n
IsFltN(v, n) == v.t = "flt" /\ v.n = n * v.d
Conflated(C, path, n, kind, loaded) ==
  /\ \E i \in Ids(C) : IsInt(ImplValueAt(C[i], path, loaded), n)
  /\ \E i \in Ids(C) : LET v == ImplValueAt(C[i], path, loaded) IN IF kind = "bool" THEN IsBoolN(v, n) ELSE IsFltN(v, n)
PickDom(C, f, loaded, d1, d3) ==
       {c \in (IF d1 THEN TypePaths(f, {"bool"}) ELSE {}) \X {0, 1} \X {"bool"} : Conflated(C, c[1], c[2], c[3], loaded)}
  \cup {c \in (IF d3 THEN TypePaths(f, {"int", "float"}) ELSE {}) \X {0 - 1, 0 - 2} \X {"flt"} : Conflated(C, c[1], c[2], c[3], loaded)}
Picks(C, f, loaded, d1, d3) == [PickDom(C, f, loaded, d1, d3) -> BOOLEAN]
ImplAtomW(C, i, a, loaded, pick) ==
  LET v == ImplValueAt(C[i], a.path, loaded)
      tn == IF a.op = "$type" THEN TypeNameOf(a.arg) ELSE ""
      cb == <<a.path, v.n, "bool">>
      cf == <<a.path, IF IsNum(v) THEN IntOf(v) ELSE 0, "flt">>
  IN IF tn = "bool" /\ v.t \in {"int", "bool"} /\ cb \in DOMAIN pick THEN pick[cb]
     ELSE IF tn = "float" /\ (v.t = "int" \/ IsFltN(v, cf[2])) /\ v.t \in {"int", "flt"} /\ cf \in DOMAIN pick THEN pick[cf]
     ELSE IF tn = "int" /\ (v.t = "int" \/ IsFltN(v, cf[2])) /\ v.t \in {"int", "flt"} /\ cf \in DOMAIN pick THEN ~pick[cf]
     ELSE AtomOn(v, a)
RECURSIVE ImplMatchW(_, _, _, _, _)
ImplMatchW(C, i, f, loaded, pick) ==
  CASE f.tag = "atom" -> ImplAtomW(C, i, f, loaded, pick)
    [] f.tag = "all"  -> TRUE
    [] f.tag = "not"  -> ~ImplMatchW(C, i, f.kids[1], loaded, pick)
    [] f.tag = "and"  -> \A k \in 1..Len(f.kids) : ImplMatchW(C, i, f.kids[k], loaded, pick)
    [] f.tag = "or"   -> \E k \in 1..Len(f.kids) : ImplMatchW(C, i, f.kids[k], loaded, pick)
\* all id sets the model allows when the deviations in ds (a subset of {"D1", "D2", "D3"}) are active
OutcomesWith(C, f, ds) ==
  LET loaded == LoadedW(f, "D2" \in ds) IN
  {{i \in Ids(C) : ImplMatchW(C, i, f, loaded, pk)} : pk \in Picks(C, f, loaded, "D1" \in ds, "D3" \in ds)}
Active == (IF FixedD1 THEN {} ELSE {"D1"}) \cup (IF FixedD2 THEN {} ELSE {"D2"}) \cup (IF FixedD3 THEN {} ELSE {"D3"})
ImplOutcomes(C, f) == OutcomesWith(C, f, Active)

\* which deviations explain an observed id set R (used to label alternatives and to judge records): the first match in
DevSets == <<{"D1"}, {"D2"}, {"D3"}, {"D1", "D2"}, {"D1", "D3"}, {"D2", "D3"}, {"D1", "D2", "D3"}>>
DevName(ds) == IF ds = {"D1"} THEN "D1" ELSE IF ds = {"D2"} THEN "D2" ELSE IF ds = {"D3"} THEN "D3"
               ELSE IF ds = {"D1", "D2"} THEN "D1+D2" ELSE IF ds = {"D1", "D3"} THEN "D1+D3"
               ELSE IF ds = {"D2", "D3"} THEN "D2+D3" ELSE "D1+D2+D3"
Explain(C, f, R) ==
  IF R = Find(C, f) THEN "ok"
  ELSE LET hits == {k \in 1..Len(DevSets) : R \in OutcomesWith(C, f, DevSets[k])} IN
       IF hits = {} THEN "unexplained" ELSE DevName(DevSets[CHOOSE k \in hits : \A q \in hits : k <= q])

-----------------------------------------------------------------------------
(* 5. requirements *)
\* stated over an arbitrary answer function A(C, f) so that they can be evaluated both on Find (theorems of
\* this specification, by construction of a per-job evaluator) and on recorded answers of the real code
NotIsComplementOn(A(_, _), C, f) == f.tag = "not" => A(C, f) = Ids(C) \ A(C, f.kids[1])
AndIsMeetOn(A(_, _), C, f) == f.tag = "and" => A(C, f) = {i \in Ids(C) : \A k \in 1..Len(f.kids) : i \in A(C, f.kids[k])}
OrIsJoinOn(A(_, _), C, f)  == f.tag = "or"  => A(C, f) = UNION {A(C, f.kids[k]) : k \in 1..Len(f.kids)}
LocalOn(A(_, _), C, f)     == A(C, f) = {i \in Ids(C) : A(<<C[i]>>, f) = {1}}

-----------------------------------------------------------------------------
(* 6a. bounded universe *)
one == <<49>>   ab == <<97, 98>>   a_ == <<97>>
l12  == L(<<I(1), I(2)>>)
l12f == L(<<F(1, 1), I(2)>>)
mx1  == M(<< <<"x", I(1)>> >>)
ValsA  == {Abs, I(0), I(1), F(1, 1), F(5, 2), B(TRUE), B(FALSE), Null, S(one), S(ab), l12, l12f, mx1, I(0 - 1), F(0 - 1, 1)}
ValsNX == {Abs, I(0), I(1), F(5, 2), B(TRUE), S(ab), Null}        \* sp.n.x ; sp.n itself may be missing / not a mapping
ValsN  == {Abs, I(1), M(<<>>)} \cup {M(<< <<"x", v>> >>) : v \in ValsNX \ {Abs}}
ValsDX == {Abs, I(0), I(1), F(1, 1), B(TRUE), S(one), S(ab), l12, Null}
MkSp(a, n) == M((IF a = Abs THEN <<>> ELSE << <<"a", a>> >>) \o (IF n = Abs THEN <<>> ELSE << <<"n", n>> >>))
MkDoc(x) == M(IF x = Abs THEN <<>> ELSE << <<"x", x>> >>)
Jobs == {Job(MkSp(a, n), MkDoc(x)) : a \in ValsA, n \in ValsN, x \in ValsDX}

PA == <<"sp", "a">>   PNX == <<"sp", "n", "x">>   PDX == <<"doc", "x">>
EqArgs   == {I(0), I(1), F(1, 1), F(5, 2), B(TRUE), Null, S(one), S(ab), l12}
OrdArgs  == {I(0), I(1), F(3, 2), B(TRUE), S(a_)}
InArgs   == {L(<<I(0), I(1)>>), L(<<F(1, 1)>>), L(<<B(TRUE)>>), L(<<S(one), Null>>), L(<<l12>>), L(<<>>)}
ReArgs   == {S(<<94, 49, 36>>), S(a_), S(<<>>)}
NearArgs == {I(1), F(1, 1), L(<<I(2), F(1, 4)>>), L(<<I(2), I(0), F(1, 2)>>)}
AtomsOn(p) ==
       {At(p, op, x) : op \in {"eq", "$eq", "$ne"}, x \in EqArgs}
  \cup {At(p, op, x) : op \in OrdOps, x \in OrdArgs}
  \cup {At(p, op, x) : op \in {"$in", "$nin"}, x \in InArgs}
  \cup {At(p, "$exists", B(b)) : b \in BOOLEAN}
  \cup {At(p, "$type", S(TN[k])) : k \in DOMAIN TN}
  \cup {At(p, "$regex", x) : x \in ReArgs}
  \cup {At(p, "$near", x) : x \in NearArgs}
ExtraAtoms ==   \* parents of nested keys, a key below a mapping-valued slot, a key nobody has
  {At(<<"sp", "n">>, "$exists", B(TRUE)), At(<<"sp", "n">>, "$ne", I(1)), At(<<"sp", "n">>, "eq", I(1)),
   At(<<"sp", "n">>, "$type", S(TN.int)), At(<<"sp", "a", "x">>, "eq", I(1)), At(<<"sp", "a", "x">>, "$exists", B(FALSE)),
   At(<<"sp", "zz">>, "$exists", B(FALSE)), At(<<"sp", "zz">>, "$ne", I(0)), At(<<"doc", "zz">>, "$nin", L(<<I(0)>>)),
   At(<<"doc", "x", "y">>, "$exists", B(TRUE))}
Atoms == AtomsOn(PA) \cup AtomsOn(PNX) \cup AtomsOn(PDX) \cup ExtraAtoms

\* 40-atom core for compound filters: every operator, every namespace, the arguments that meet D1/D2
Core ==
  {At(PA, "eq", I(1)), At(PA, "eq", S(ab)), At(PA, "$eq", F(1, 1)), At(PA, "$ne", I(0)), At(PA, "$ne", Null),
   At(PA, "$gt", I(0)), At(PA, "$lte", F(3, 2)), At(PA, "$in", L(<<I(0), I(1)>>)), At(PA, "$nin", L(<<S(one), Null>>)),
   At(PA, "$exists", B(TRUE)), At(PA, "$exists", B(FALSE)), At(PA, "$type", S(TN.bool)), At(PA, "$type", S(TN.int)),
   At(PA, "$type", S(TN.list)), At(PA, "$regex", S(a_)), At(PA, "$near", L(<<I(2), F(1, 4)>>)), At(PA, "eq", l12),
   At(PNX, "eq", I(1)), At(PNX, "$ne", I(1)), At(PNX, "$gte", I(1)), At(PNX, "$exists", B(FALSE)), At(PNX, "$in", L(<<B(TRUE)>>)),
   At(PNX, "$type", S(TN.bool)), At(PNX, "$type", S(TN.float)), At(PNX, "$nin", L(<<>>)), At(PNX, "$near", I(1)),
   At(<<"sp", "n">>, "$exists", B(TRUE)), At(<<"sp", "a", "x">>, "eq", I(1)),
   At(PDX, "eq", I(1)), At(PDX, "eq", S(one)), At(PDX, "$ne", I(1)), At(PDX, "$lt", I(1)), At(PDX, "$exists", B(TRUE)),
   At(PDX, "$exists", B(FALSE)), At(PDX, "$in", L(<<l12>>)), At(PDX, "$nin", L(<<I(0), I(1)>>)), At(PDX, "$type", S(TN.bool)),
   At(PDX, "$type", S(TN.str)), At(PDX, "$regex", S(<<94, 49, 36>>)), At(PDX, "$eq", Null)}
Core12 == {At(PA, "eq", I(1)), At(PA, "$ne", I(0)), At(PA, "$gt", I(0)), At(PA, "$exists", B(FALSE)), At(PA, "$type", S(TN.bool)),
           At(PA, "$nin", L(<<S(one), Null>>)), At(PNX, "$gte", I(1)), At(PNX, "$exists", B(FALSE)),
           At(PDX, "eq", I(1)), At(PDX, "$ne", I(1)), At(PDX, "$exists", B(TRUE)), At(PDX, "$type", S(TN.bool))}
Core6  == {At(PA, "$ne", I(0)), At(PA, "$type", S(TN.bool)), At(PNX, "$exists", B(FALSE)), At(PDX, "eq", I(1)),
           At(PDX, "$exists", B(TRUE)), At(PA, "$gt", I(0))}

FiltersD1 == Atoms \cup {All}
FiltersD2 == IF MODE \notin {"universe", "spell"} THEN {} ELSE
             {Not(a) : a \in Atoms} \cup {Not(All)}
             \cup {And(<<x, y>>) : x, y \in Core} \cup {Or(<<x, y>>) : x, y \in Core}
             \cup {And(<<x>>) : x \in Core12} \cup {Or(<<x, All>>) : x \in Core12}
FiltersD3 == IF MODE \notin {"universe", "spell"} THEN {} ELSE
             {Not(Not(a)) : a \in Core}
             \cup {Not(And(<<x, y>>)) : x, y \in Core12} \cup {Not(Or(<<x, y>>)) : x, y \in Core12}
             \cup {And(<<Not(x), y>>) : x, y \in Core12} \cup {Or(<<x, Not(y)>>) : x, y \in Core12}
             \cup {And(<<Or(<<x, y>>), z>>) : x, y, z \in Core6} \cup {Or(<<And(<<x, y>>), Not(z)>>) : x, y, z \in Core6}
             \cup {And(<<x, y, z>>) : x, y, z \in Core6} \cup {Or(<<x, y, z>>) : x, y, z \in Core6}
\* (TLC evaluates zero-arity constant definitions at start-up: the MODE guards keep the other modes cheap)
UFilters == IF MODE # "universe" THEN <<>> ELSE SetToSeq(FiltersD1 \cup FiltersD2 \cup FiltersD3)
GFilters == IF MODE # "grid" THEN <<>> ELSE SetToSeq(Atoms \cup {Not(a) : a \in Atoms} \cup {All, Not(All)})

\* corpora: sequences of jobs with distinct state points
J0 == Job(MkSp(Abs, Abs), MkDoc(Abs))
GridCorpora ==   \* calibration grid: vary one slot in one or two jobs
  IF MODE # "grid" THEN {} ELSE
       {<<>>}
  \cup {<<Job(MkSp(a, Abs), MkDoc(Abs))>> : a \in ValsA}
  \cup {<<Job(MkSp(Abs, n), MkDoc(Abs))>> : n \in ValsN}
  \cup {<<Job(MkSp(Abs, Abs), MkDoc(x))>> : x \in ValsDX}
  \cup {<<Job(MkSp(pr[1], Abs), MkDoc(Abs)), Job(MkSp(pr[2], Abs), MkDoc(Abs))>> : pr \in {q \in ValsA \X ValsA : q[1] # q[2]}}
  \cup {<<Job(MkSp(Abs, M(<< <<"x", pr[1]>> >>)), MkDoc(Abs)), Job(MkSp(Abs, M(<< <<"x", pr[2]>> >>)), MkDoc(Abs))>> :
            pr \in {q \in (ValsNX \ {Abs}) \X (ValsNX \ {Abs}) : q[1] # q[2]}}
  \cup {<<Job(MkSp(I(1), Abs), MkDoc(x)), Job(MkSp(I(2), Abs), MkDoc(y))>> : x \in ValsDX, y \in ValsDX}
RandCorpora ==
  IF MODE # "universe" THEN {} ELSE
       {<<>>} \cup RandomSubset(NCORP \div 4 + 1, [1..1 -> Jobs])
  \cup {c \in RandomSubset(NCORP, [1..2 -> Jobs]) : DistinctSps(c)}
  \cup {c \in RandomSubset(NCORP, [1..3 -> Jobs]) : DistinctSps(c)}

FileCorpus(i) == LET RECURSIVE FW(_)
                     FW(w) == [t |-> w.t, n |-> w.n, d |-> w.d, s |-> w.s,
                               l |-> [k \in 1..Len(w.l) |-> FW(w.l[k])],
                               m |-> [k \in 1..Len(w.m) |-> <<w.m[k][1], FW(w.m[k][2])>>]]
                 IN [k \in 1..Len(FileIn[i].corpus) |-> Job(FW(FileIn[i].corpus[k].sp), FW(FileIn[i].corpus[k].doc))]
RECURSIVE FilterFromWire(_)
FilterFromWire(w) ==
  LET RECURSIVE FW(_)
      FW(x) == [t |-> x.t, n |-> x.n, d |-> x.d, s |-> x.s,
                l |-> [k \in 1..Len(x.l) |-> FW(x.l[k])],
                m |-> [k \in 1..Len(x.m) |-> <<x.m[k][1], FW(x.m[k][2])>>]]
  IN [tag |-> w.tag, path |-> w.path, op |-> w.op, arg |-> FW(w.arg),
      kids |-> [k \in 1..Len(w.kids) |-> FilterFromWire(w.kids[k])]]

Corpora == IF MODE = "grid" THEN SetToSeq(GridCorpora)
           ELSE IF MODE = "universe" THEN SetToSeq(RandCorpora)
           ELSE IF MODE = "file" THEN [i \in 1..Len(FileIn) |-> FileCorpus(i)]
           ELSE <<>>
Filters == IF MODE = "grid" THEN GFilters
           ELSE IF MODE = "universe" THEN UFilters
           ELSE IF MODE = "file" THEN [i \in 1..Len(FileIn) |-> FilterFromWire(FileIn[i].filter)]
           ELSE <<>>
\* the filters paired with corpus number ci
FilterIdx(ci) == IF MODE = "file" THEN {ci} ELSE 1..Len(Filters)

-----------------------------------------------------------------------------
(* 6b. state: one case = (corpus, top of stack) *)
VARIABLES corpus, stack
vars == <<corpus, stack>>
Top == stack[Len(stack)]
HasCase == stack # <<>>

InitCases == \E ci \in 1..Len(Corpora) : \E fi \in FilterIdx(ci) :
               /\ corpus = Corpora[ci] /\ stack = <<Filters[fi]>>
               /\ WellTyped(corpus, Top)
NextCases == UNCHANGED vars
InitBuild == corpus = <<>> /\ stack = <<>>

(* constructor: deeper filters, larger corpora; every state with a non-empty stack is a case *)
RECURSIVE Depth(_)
Depth(f) == IF f.tag \in {"atom", "all"} THEN 1
            ELSE 1 + Max({Depth(f.kids[k]) : k \in 1..Len(f.kids)})
BuildAtoms == Core \cup {At(PA, "$gt", S(a_)), At(PA, "$type", S(TN.float)), At(PDX, "$type", S(TN.int)), At(PDX, "$near", F(1, 1))}
Pop(n) == SubSeq(stack, 1, Len(stack) - n)
AddJob(j) == /\ Len(corpus) < MAXJOBS /\ \A i \in Ids(corpus) : ~JEq(corpus[i].sp, j.sp)
             /\ corpus' = Append(corpus, j) /\ UNCHANGED stack
             /\ \A k \in 1..Len(stack) : WellTyped(corpus', stack[k])
AddTwin ==   \* a job that differs from an existing one only in the TYPE of sp.a (1 / 1.0 / True; 0 / False)
  \E i \in Ids(corpus) : \E v \in {I(0), I(1), F(1, 1), B(TRUE), B(FALSE), I(0 - 1), F(0 - 1, 1), I(0 - 2), F(0 - 2, 1)} :
     LET j == Job(M(<< <<"a", v>> >> \o SelectSeq(corpus[i].sp.m, LAMBDA pr : pr[1] # "a")), corpus[i].doc) IN AddJob(j)
PushAtom(a) == /\ Len(stack) < 3 /\ WellTyped(corpus, a) /\ stack' = Append(stack, a) /\ UNCHANGED corpus
Negate == /\ HasCase /\ Depth(Top) < MAXDEPTH /\ stack' = Append(Pop(1), Not(Top)) /\ UNCHANGED corpus
Combine2(tag) == /\ Len(stack) >= 2 /\ Depth(Top) < MAXDEPTH /\ Depth(stack[Len(stack) - 1]) < MAXDEPTH
                 /\ stack' = Append(Pop(2), FNode(tag, <<stack[Len(stack) - 1], Top>>)) /\ UNCHANGED corpus
Combine3(tag) == /\ Len(stack) >= 3 /\ \A k \in 0..2 : Depth(stack[Len(stack) - k]) < MAXDEPTH
                 /\ stack' = Append(Pop(3), FNode(tag, <<stack[Len(stack) - 2], stack[Len(stack) - 1], Top>>)) /\ UNCHANGED corpus
Wrap1(tag) == /\ HasCase /\ Depth(Top) < MAXDEPTH /\ stack' = Append(Pop(1), FNode(tag, <<Top>>)) /\ UNCHANGED corpus
JoinAll(tag) == /\ HasCase /\ Depth(Top) < MAXDEPTH /\ stack' = Append(Pop(1), FNode(tag, <<Top, All>>)) /\ UNCHANGED corpus
BuildJobs == IF MODE # "build" THEN {} ELSE RandomSubset(NCORP, Jobs)          \* a seeded sample keeps the branching of AddAnyJob small
AddAnyJob == \E j \in BuildJobs : AddJob(j)
PushAnyAtom == \E a \in BuildAtoms : PushAtom(a)
CombineAnd == Combine2("and")
CombineOr  == Combine2("or")
CombineAnd3 == Combine3("and")
CombineOr3  == Combine3("or")
WrapOne == Wrap1("and") \/ Wrap1("or") \/ JoinAll("and") \/ JoinAll("or")
NextBuild == AddAnyJob \/ AddTwin \/ PushAnyAtom \/ Negate \/ CombineAnd \/ CombineOr \/ CombineAnd3 \/ CombineOr3 \/ WrapOne
\* cfg: INIT InitCases NEXT NextCases (grid / universe / file)   or   INIT InitBuild NEXT NextBuild (-simulate)

-----------------------------------------------------------------------------
(* 6c. what TLC checks on every case *)
CaseOK  == HasCase => WellTyped(corpus, Top) /\ DistinctSps(corpus)
NotIsComplement == HasCase => NotIsComplementOn(Find, corpus, Top)
AndIsMeet       == HasCase => AndIsMeetOn(Find, corpus, Top)
OrIsJoin        == HasCase => OrIsJoinOn(Find, corpus, Top)
Local           == HasCase => LocalOn(Find, corpus, Top)
\* the requirement of C06 on the conformant model: violated exactly while a deviation is switched on
ReqHolds        == HasCase => ImplOutcomes(corpus, Top) = {Find(corpus, Top)}
\* the model with all deviations switched off is the reference
NoDeviationIsReference == (FixedD1 /\ FixedD2 /\ FixedD3 /\ HasCase) => ImplOutcomes(corpus, Top) = {Find(corpus, Top)}

-----------------------------------------------------------------------------
(* 6d. export: expected answers leave TLC as NDJSON *)
Mask(Sx) == FoldSet(LAMBDA i, acc : acc + 2 ^ (i - 1), 0, Sx)
\* can the conformant model differ from the reference on this case at all? (cheap syntactic / corpus test)
MayDeviate(C, f) ==
  \/ PickDom(C, f, TRUE, ~FixedD1, ~FixedD3) # {}
  \/ ~FixedD2 /\ MentionsDoc(f) /\ ~DocOutsideNot(f) /\ \E i \in Ids(C) : C[i].doc.m # <<>>
\* the id sets the conformant model allows, each labelled with the deviations that produce it ("ok" = the reference)
Outs(C, f) ==
  LET want == Find(C, f)
      ks == {k \in 1..Len(DevSets) : DevSets[k] \subseteq Active}
      lab(r) == DevName(DevSets[CHOOSE k \in ks : r \in OutcomesWith(C, f, DevSets[k]) /\ \A q \in ks : r \in OutcomesWith(C, f, DevSets[q]) => k <= q])
      others == UNION {OutcomesWith(C, f, DevSets[k]) : k \in ks} \ {want}
      ok == IF want \in ImplOutcomes(C, f) THEN {<<Mask(want), "ok">>} ELSE {}
  IN SetToSeq(ok \cup {<<Mask(r), lab(r)>> : r \in others})
OutSeq(C, fi) == LET al == Outs(C, Filters[fi]) IN
                 IF \A q \in 1..Len(al) : al[q][2] = "ok" THEN <<>> ELSE [q \in 1..Len(al) |-> <<fi, al[q][1], al[q][2]>>]
\* one line per corpus: want[k] = mask of Find for filter k (-1: ill-typed pair, not a case);
\* outs = for each case where the conformant model may deviate: the sequence of <<filter index, mask, label>>
CorpusLine(ci) ==
  LET C == Corpora[ci]
      fs == SetToSeq(FilterIdx(ci))
      want == [k \in 1..Len(fs) |-> IF WellTyped(C, Filters[fs[k]]) THEN Mask(Find(C, Filters[fs[k]])) ELSE 0 - 1]
      dev == {k \in 1..Len(fs) : want[k] >= 0 /\ MayDeviate(C, Filters[fs[k]])}
  IN [ci |-> ci, corpus |-> C, fidx |-> IF MODE = "file" THEN fs ELSE <<>>, want |-> want,
      outs |-> SetToSeq({OutSeq(C, fs[k]) : k \in dev})]
Export ==
  /\ TLCGet("level") >= 0
  /\ ndJsonSerialize(IOEnv.QUERY_FILTERS, IF MODE = "file" THEN <<>> ELSE Filters)
  /\ ndJsonSerialize(IOEnv.QUERY_OUT, [ci \in 1..Len(Corpora) |-> CorpusLine(ci)])

\* MODE = "build": every visited state with a single filter on the stack that is deep or has a large corpus is
\* appended to the NDJSON file as a case (invariants are evaluated on every successor TLC generates)
EmitHere == HasCase /\ Len(stack) = 1 /\ (Depth(Top) >= 3 \/ Len(corpus) >= 4)
CaseLine == LET f == Top
                al == IF MayDeviate(corpus, f) THEN Outs(corpus, f) ELSE <<>> IN
            [corpus |-> corpus, filter |-> f, want |-> Mask(Find(corpus, f)),
             outs |-> IF \A q \in 1..Len(al) : al[q][2] = "ok" THEN <<>> ELSE al]
EmitCase == EmitHere =>
  Serialize(ToJson(CaseLine) \o "\n", IOEnv.QUERY_OUT,
            [format |-> "TXT", charset |-> "UTF-8", openOptions |-> <<"WRITE", "CREATE", "APPEND">>]).exitValue = 0

\* MODE = "file": judge recorded real executions. Record i carries corpus, filter, ids (the real answer),
\* sub (real answers for the direct operands), single (for each job: did the single-job corpus return it),
\* re (the (regex, string) pairs that match). The verdict explains every recorded answer (ok / D1 / D2 / unexplained).
RecIds(i)    == {FileIn[i].ids[k] : k \in 1..Len(FileIn[i].ids)}
RecSub(i, k) == {FileIn[i].sub[k][q] : q \in 1..Len(FileIn[i].sub[k])}
Verdict(i) ==
  LET C == Corpora[i]   f == Filters[i]   R == RecIds(i)
      wt == WellTyped(C, f) /\ DistinctSps(C)
      kidsets == [k \in 1..Len(FileIn[i].sub) |-> RecSub(i, k)]
      nsub == Len(FileIn[i].sub)
  IN [i |-> i,
      welltyped |-> wt,
      want    |-> IF wt THEN SetToSeq(Find(C, f)) ELSE <<>>,
      explain |-> IF wt THEN Explain(C, f, R) ELSE "n/a",
      subx    |-> [k \in 1..nsub |-> IF wt THEN Explain(C, f.kids[k], kidsets[k]) ELSE "n/a"],
      singlex |-> [j \in 1..Len(FileIn[i].single) |->
                     IF wt THEN Explain(<<C[j]>>, f, IF FileIn[i].single[j] THEN {1} ELSE {}) ELSE "n/a"],
      \* the requirement relations evaluated on the code's own answers (TRUE when not applicable / not recorded)
      notc  |-> (wt /\ f.tag = "not" /\ nsub = 1) => R = Ids(C) \ kidsets[1],
      meet  |-> (wt /\ f.tag = "and" /\ nsub = Len(f.kids)) => R = {j \in Ids(C) : \A k \in 1..nsub : j \in kidsets[k]},
      join  |-> (wt /\ f.tag = "or" /\ nsub = Len(f.kids)) => R = UNION {kidsets[k] : k \in 1..nsub},
      local |-> (wt /\ Len(FileIn[i].single) = Len(C)) => R = {j \in Ids(C) : FileIn[i].single[j]}]
Judge ==
  /\ TLCGet("level") >= 0
  /\ ndJsonSerialize(IOEnv.QUERY_OUT, [i \in 1..Len(FileIn) |-> Verdict(i)])

\* MODE = "scale": whether a job matches must not depend on HOW MANY other jobs exist either (an implementation may
\* switch strategy with the size of its index). Record i carries one large corpus, a family of filters, for every
\* filter the real answer on the large corpus (ids[k]; errs[k] # "" if the query raised) and, for a few small
\* sub-corpora (small[s].pos = positions in the large corpus), the real answers there (small[s].ids[k], positions of the
\* large corpus). Every (large corpus, filter) pair is also an initial state (InitScale), so the theorems are checked on it.
ScaleFilters(i) == [k \in 1..Len(FileIn[i].filters) |-> FilterFromWire(FileIn[i].filters[k])]
InitScale == \E i \in 1..Len(FileIn) : \E k \in 1..Len(FileIn[i].filters) :
               /\ corpus = FileCorpus(i) /\ stack = <<ScaleFilters(i)[k]>>
               /\ WellTyped(corpus, Top)
SeqSet(sq) == {sq[q] : q \in 1..Len(sq)}
ScaleVerdict(i) ==
  LET C == FileCorpus(i)   fs == ScaleFilters(i)   ds == DistinctSps(C)
      sub(s) == [q \in 1..Len(FileIn[i].small[s].pos) |-> C[FileIn[i].small[s].pos[q]]]       \* the small corpus
      \* the recorded answer on small corpus s for filter k, as positions of the small corpus
      ans(s, k) == {q \in 1..Len(FileIn[i].small[s].pos) : FileIn[i].small[s].pos[q] \in SeqSet(FileIn[i].small[s].ids[k])}
      verdictOf(k) ==
        LET f == fs[k]   wt == ds /\ WellTyped(C, f)   R == SeqSet(FileIn[i].ids[k]) IN
        [k |-> k, welltyped |-> wt,
         want    |-> IF wt THEN SetToSeq(Find(C, f)) ELSE <<>>,
         explain |-> IF wt /\ FileIn[i].errs[k] = "" THEN Explain(C, f, R) ELSE "n/a",
         small   |-> [s \in 1..Len(FileIn[i].small) |-> IF wt /\ FileIn[i].small[s].errs[k] = "" THEN Explain(sub(s), f, ans(s, k)) ELSE "n/a"],
         \* Local across corpus sizes, on the code's own answers: restricted to a sub-corpus the large answer is the small answer
         local   |-> (wt /\ FileIn[i].errs[k] = "") =>
                       \A s \in 1..Len(FileIn[i].small) : FileIn[i].small[s].errs[k] = "" =>
                          R \cap SeqSet(FileIn[i].small[s].pos) = SeqSet(FileIn[i].small[s].ids[k])]
  IN [i |-> i, njobs |-> Len(C), verdicts |-> [k \in 1..Len(fs) |-> verdictOf(k)]]
ScaleJudge ==
  /\ TLCGet("level") >= 0
  /\ ndJsonSerialize(IOEnv.QUERY_OUT, [i \in 1..Len(FileIn) |-> ScaleVerdict(i)])
=============================================================================

\* Query.tla, sampled corpora of 0..3 jobs x the whole bounded grammar (use -seed) (the driver generates the same text; FixedD* are set from probes of the tree)
\* run: tlc -config MC_grid.cfg Query.tla   with QUERY_OUT / QUERY_FILTERS naming the export files
CONSTANTS
  MODE = "universe"
  NCORP = 14
  MAXJOBS = 6
  MAXDEPTH = 4
  FixedD1 = FALSE
  FixedD2 = FALSE
  FixedD3 = FALSE
INIT InitCases
NEXT NextCases
INVARIANT CaseOK
INVARIANT NotIsComplement
INVARIANT AndIsMeet
INVARIANT OrIsJoin
INVARIANT Local
INVARIANT NoDeviationIsReference
POSTCONDITION Export
CHECK_DEADLOCK FALSE

#!/bin/sh
# offline setup: nothing to build - specs are interpreted by TLC, harness is plain Python run by /venv/bin/python
set -e
cd "$(dirname "$0")"
/venv/bin/python -c "import signac, hypothesis; print('signac', signac.__version__, 'from', signac.__file__)"
java -cp /opt/veriftools/tla/tla2tools.jar tlc2.TLC -h >/dev/null 2>&1 || true
chmod +x check
echo setup ok

#!/bin/bash
# usage: tools/seedcheck.sh <PID> <srcdir with patch.diff demo.py meta.json> <name> [checks...]
# Confirms a seeded change in a scratch worktree (demo passes before / fails after, baseline tests still 310 pass),
# runs the given checks (default: the property's own) against it, records everything under /verif/seeded/<name>/.
set -u
PID=$1; SRC=$2; NAME=$3; shift 3
CHECKS=${@:-$PID}
WT=/tmp/sv-$NAME
OUT=/verif/seeded/$NAME
mkdir -p $OUT
cp $SRC/patch.diff $OUT/patch.diff; cp $SRC/demo.py $OUT/demo.py; cp $SRC/meta.json $OUT/meta.agent.json 2>/dev/null
git -C /repo worktree remove --force $WT 2>/dev/null; rm -rf $WT
git -C /repo worktree add -q --detach $WT HEAD || exit 2
cd $WT
PYTHONPATH=$WT /venv/bin/python $OUT/demo.py > $OUT/demo_before.log 2>&1; B=$?
git apply $OUT/patch.diff || { echo "patch does not apply" > $OUT/result.txt; git -C /repo worktree remove --force $WT; exit 2; }
PYTHONPATH=$WT /venv/bin/python $OUT/demo.py > $OUT/demo_after.log 2>&1; A=$?
T=$(PYTHONPATH=$WT /venv/bin/python -m pytest -q -p no:cacheprovider --timeout=900 tests 2>&1 | tail -1)
cd /verif
RES=""
for C in $CHECKS; do
  VERIF_WORK=/tmp/sv-work-$NAME VERIF_REPO=$WT timeout 3600 ./check $C --tier quick > $OUT/check_$C.log 2>&1; RC=$?
  RES="$RES $C:exit$RC"
  # keep the verdict lines only, and do not let this run's evidence/replays of a mutated tree linger
  grep -E "^(VIOLATION|KNOWN-FINDING|SPEC-DRIFT|  signature|C[0-9]+ quick|MACHINERY)" $OUT/check_$C.log | cut -c1-400 > $OUT/check_$C.summary; rm -f $OUT/check_$C.log
done
git -C /repo worktree remove --force $WT; rm -rf /tmp/sv-work-$NAME
echo "demo_before=$B demo_after=$A tests=[$T] checks=[$RES]" | tee $OUT/result.txt

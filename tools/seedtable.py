#!/venv/bin/python
"""prints the DESIGN.md table of seeded changes from /verif/seeded/*/meta.json"""
import json, glob, os
print("| seeded change | property | what it does / what it needs | caught by (quick tier) | first signatures |")
print("|---|---|---|---|---|")
for d in sorted(glob.glob('/verif/seeded/C*-*')):
    m = json.load(open(d + '/meta.json'))
    det = m["detection"]
    runs = ", ".join(c.replace(":exit1", " ✓").replace(":exit0", " ✗ (missed)").replace(":exit2", " (machinery)") for c in det["checks_run"]) or "—"
    sigs = "; ".join(s for c in det["violation_signatures"].values() for s in c[:2])[:160]
    hist = (" **History:** " + " → ".join(m["history"])) if m.get("history") else ""
    summ = (m.get("summary") or "").replace("|", "/")[:260]
    print("| `seeded/%s` | %s | %s%s | %s | `%s` |" % (os.path.basename(d), m["property"], summ, hist.replace("|", "/"), runs, sigs.replace("|", "/")))

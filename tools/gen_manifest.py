#!/venv/bin/python
"""Regenerates /verif/MANIFEST.json from the table below (single source of truth for the interface)."""
import json, os
HERE = os.path.dirname(os.path.dirname(os.path.abspath(__file__)))
ALL = ["C%02d" % i for i in range(1, 21)]
CHECKS = {
 "C01": dict(technique="TLA+ generator spec (JobId.tla: canonical JSON text written out character by character) enumerated by TLC; every case replayed into signac under all spellings; recorded random values validated back against the spec",
             text="TLC enumerates a bounded universe of state points, checks Injective/AsciiOnly/KeysSorted on the specification and exports (value, canonical text); the harness hashes the text and compares with the real ids for every key order / container spelling / file round trip / fresh interpreter; seeded deep values go the other way (code -> spec). Bounded-exhaustive for one-key state points over the depth<=1 alphabet, sampled beyond.",
             note="trusted: hashlib.md5, float repr / big-int text (atoms in the spec), TLC", ref="5 C01"),
}
def main():
    checks = []
    for pid, c in CHECKS.items():
        checks.append({
            "property_id": pid,
            "quick_cmd": "./check %s --tier quick" % pid,
            "thorough_cmd": "./check %s --tier thorough" % pid,
            "evidence_file": "/verif/evidence/%s.json" % pid,
            "replay_cmd_template": "./check %s --replay {path}" % pid,
            "engine": c.get("engine", "tlc+replay"),
            "level_claimed": {"category": c.get("level", "model_checking"), "text": c["text"], "design_ref": "DESIGN.md " + c["ref"]},
            "level_note": c["note"],
            "technique": c["technique"],
        })
    na = [{"property_id": p, "reason": NA.get(p, "not built yet in this round; the design (DESIGN.md 5) covers it and a later commit adds the check")} for p in ALL if p not in CHECKS]
    m = {
        "version": 1,
        "setup_cmd": "cd /verif && ./setup.sh",
        "hooks": {"guard": "SIGNAC_VERIF", "enable": "export SIGNAC_VERIF=1 (set by ./check): activates the out-of-tree recorder / file-system shim in /verif/harness; signac sources carry no hook", "baseline_off_cmd": "cd /repo && env -u SIGNAC_VERIF /venv/bin/python -m pytest -ra -q -p no:cacheprovider --timeout=900 --continue-on-collection-errors", "source_commits": [], "add_only": True},
        "engines": [{"name": "tlc+replay", "path": "/verif/harness", "serves_properties": sorted(CHECKS), "kind_free_text": "explicit TLA+ specifications under /verif/spec checked with TLC; bound to the code by replaying TLC-generated cases/behaviours into signac and by validating recorded executions of signac against the specification"}],
        "checks": checks,
        "not_applicable": na,
        "notes": "Every check: ./check <ID> --tier quick|thorough. Exit 0 held / 1 VIOLATION / 2 machinery failure. Known findings: /verif/known_findings.json.",
    }
    json.dump(m, open(os.path.join(HERE, "MANIFEST.json"), "w"), indent=1)
NA = {}
if __name__ == "__main__":
    main()

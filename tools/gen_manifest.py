#!/venv/bin/python
"""Regenerates /verif/MANIFEST.json from the table below (single source of truth for the interface)."""
import json, os
HERE = os.path.dirname(os.path.dirname(os.path.abspath(__file__)))
ALL = ["C%02d" % i for i in range(1, 21)]
CHECKS = {
 "C01": dict(technique="TLA+ generator spec (JobId.tla: canonical JSON text written out character by character) enumerated by TLC; every case replayed into signac under all spellings; recorded random values validated back against the spec",
             text="TLC enumerates a bounded universe of state points, checks Injective/AsciiOnly/KeysSorted on the specification and exports (value, canonical text); the harness hashes the text and compares with the real ids for every key order / container spelling / file round trip / fresh interpreter; seeded deep values go the other way (code -> spec). Bounded-exhaustive for one-key state points over the depth<=1 alphabet, sampled beyond.",
             note="trusted: hashlib.md5, float repr / big-int text (atoms in the spec), TLC", ref="5 C01"),
}
WS_NOTE = "trusted: TLC; the raw projection of project directories (os.walk/json/gzip) in harness/wsengine.py; real ids computed by the harness's own canonical JSON + md5 (validated against the spec by C01); bounded universe (2 keys x 2 values, <=3 handles, <=2 projects) beyond which coverage is by TLC -simulate sampling"
WS_TECH = "explicit TLA+ state machine (spec/workspace/Workspace.tla) model-checked by TLC; every edge of the dumped state graph and TLC-simulated long behaviours replayed into real signac with the projected disk state, cache file, session cache, handle ids and results compared after each step; the property's own post-conditions judged on the real tree"
CHECKS.update({
 "C02": dict(technique=WS_TECH + "; id-prefix resolution as a TLC generator spec (Prefix.tla) over real colliding ids",
             text="TLC checks Lazy / PersistExact / InitIdempotent on the conformant workspace model (all histories of open/init/read/restart/remove up to the depth bound, populated starts with and without cache file) and every edge is executed on the real library: open_job leaves the tree byte-identical and is immune to later mutation of the caller's mapping, init persists the type-exact state point and never rewrites a valid file (inode/mtime), a fresh session finds the job. Every prefix (and perturbed prefix) of 12-24 real ids colliding at lengths 1..5 is resolved by TLC and by fresh sessions (KeyError vs LookupError exact).",
             note=WS_NOTE, ref="5 C02"),
 "C03": dict(technique=WS_TECH,
             text="The plain model of the property is the abstract state of Workspace.tla (about 25 public operations incl. failing branches, two projects, shallow copies, strays, cache). TLC explores all histories to the depth bound plus long simulated ones; each transition is executed on real signac in a fresh sandbox and the disk state must equal the model (divergence = violation); on every real state check() passes, directory name = hash of state point file, len/iteration/membership agree, strays are ignored and no ~/temp files remain. Known deviations of the code are modelled (ghost variable `tainted`) and reported as KNOWN-FINDING.",
             note=WS_NOTE + "; HDF5 stores not modelled; deepcopy/pickle handles are covered by scripted scenarios in C04, not by the state machine", ref="5 C03"),
 "C04": dict(technique=WS_TECH + "; scripted deepcopy/pickle and value-shape assignment scenarios",
             text="Action properties NoClobber, RekeyCarries, UpdateNoOverwrite, MoveKeepsId, CloneIndependent (and HandlesFollow, which TLC refutes on the conformant model exactly where the code does - D2) are checked by TLC over all re-key/move/clone histories from populated workspaces; every edge is executed for real with byte snapshots before/after: payload carried byte-identically, old id gone, all shallow copies follow (id, path, statepoint, cached_statepoint, document), DestinationExistsError and update_statepoint conflicts leave the disk untouched.",
             note=WS_NOTE + "; move() modelled for handles without shallow copies", ref="5 C04"),
 "C08": dict(technique=WS_TECH + "; every state observed twice (cache file present / hidden)",
             text="TLC checks CacheSound, UpdateCacheExact, SecondCallNoop over all histories of {init, remove, re-key, update_cache, restart, delete cache, open} to the bound (and simulated to depth 40); every transition is replayed and after EVERY step the API view is taken in fresh sessions with the cache file in place and hidden - both must equal the raw workspace - and after update_cache the decoded gzip+JSON file must be exact and a second call a no-op (inode unchanged).",
             note=WS_NOTE, ref="5 C08"),
 "C09": dict(technique=WS_TECH + "; byte-level damage enumerated by the harness and classified into the model's damage kinds by an independent parse + canonical hash",
             text="Damage kinds (file missing / unparseable / other valid JSON / directory renamed) are actions of the model; TLC explores their combinations on 2-3 jobs with and without cache together with check, repair, restart, open-by-id and checks NeverAcceptWrong, RepairFrame, RepairRestores; every edge is replayed and judged (check names exactly the damaged jobs, a fresh session never returns a state point hashing elsewhere, repair restores what the cache knows and never touches documents/data). Truncation at every byte offset and 7 substitution classes at every offset of 4 state point files are enumerated, classified independently and judged by the same post-conditions.",
             note=WS_NOTE + "; Python's json is the independent parser for classification; listing order fixed to sorted during repair()", ref="5 C09", level="model_checking"),
})
FS_NOTE = "trusted: TLC; the in-process file-system shim harness/fsshim.py (audited against strace in the thorough tier: every mutating syscall under the sandbox has a shim event; freeze vs os._exit cross-checked); the kernel's rename(2) atomicity (process crashes, not power loss); errno faults are injected at mutating steps (stat-type predicates are not failed: os.path.isdir/isfile read every error as 'not there', like ENOENT which the property excludes)"
CHECKS.update({
 "C10": dict(technique="explicit TLA+ model of a POSIX file system and of the write protocols (spec/lifecycle/PosixFs.tla, Lifecycle.tla) checked by TLC in every state incl. after Crash and at every reader position; real writes recorded by an fs shim and validated by TLC (LifecycleTrace.tla); every crash point / torn-prefix class / reader position re-executed on the real code and judged by plain json/gzip reads",
             text="TLC checks OldOrNew, NeverTornOrEmpty, LitterOnlyTmp in every reachable state of the document / state point / cache / buffered-flush write protocols (crash anywhere, four torn-prefix classes, one errno failure, a concurrent reader at any position) and is required to FIND the violation on the in-place alternative protocol (model sanity). The real protocols are recorded step by step and validated against the model; then each crash@k / torn@k,p / reader position is executed for real (default and disable_multithreading configurations) and the target file is read raw: it must parse to old or new, with at most a stray temp file.",
             note=FS_NOTE, ref="5 C10, 10.5", engine="tlc+fsshim"),
 "C11": dict(technique="explicit TLA+ model of the life-cycle operations as file-system step sequences with crash / torn write / errno outcomes (Lifecycle.tla over PosixFs.tla) checked by TLC (<=1 fault exhaustively, <=2 by -simulate); every TLC fault script executed on the real code under the fs shim and the resulting real traces validated back by TLC; recovery judged through a fresh Project",
             text="TLC checks OthersUntouched, PayloadUnderOneId, ValidOrReported, NoForgery, ErrorNotSilent over init / re-key / move / clone / remove / clear scenarios (fresh, existing, colliding destination; nested payload; an untouched second job) with a crash before or inside any step, or one of EIO ENOSPC EACCES EXDEV EROFS at any mutating step followed by the code's handler path. Each fault script is run for real (crash = freeze of all later effects, torn writes, raised OSError), then a fresh session's check(), the directory listing and byte snapshots are compared with the model state and judged by the property's post-conditions; double faults are sampled from the seed.",
             note=FS_NOTE, ref="5 C11, 10.5", engine="tlc+fsshim", level="model_checking"),
})
CHECKS.update({
 "C19": dict(technique="TLA+ generator spec of directory trees and of get_project / get_job / Project() / init_project (spec/discovery/Discovery.tla) enumerated by TLC with the requirements Nearest / Determinism / ExactOnly / JobInnermost / MissingRaises / InitIdempotent; every exported (tree, query, expected answer) materialised and queried on the real code under several path spellings and working directories; harness-generated random trees judged back by TLC (MODE = file)",
             text="TLC enumerates tree families (full branching to depth 2-3, every spine to depth 5 with a side branch and one symlink, seeded wide depth-5 trees) x every node / through-link / non-existent query, checks the declarative requirements against the code-shaped resolution functions, and exports the expected answer; the driver builds each tree for real (projects, workspaces, id-named children, symlinks), calls get_project(search True/False), Project(), get_job with absolute / relative / cwd spellings and compares path, id or LookupError; init_project on rich existing projects is wrapped in byte + inode/mtime snapshots.",
             note="trusted: TLC; calibrated rules named in the spec (CAL_Lexical: enclosure judged on the path as written; CAL_Cwd; CAL_Regex); exhaustive only within the stated tree families; assumes nothing above the sandbox is a signac project (checked at start)", ref="5 C19, 10"),
 "C20": dict(technique="TLA+ model of the schema-version gate and of the migration chain as named sub-steps (spec/discovery/Migration.tla) checked by TLC over the exhaustive product of legacy layouts; every layout written by hand as signac v0/v1 did, the real Project / get_project / init_project / apply_migrations run on it and outcome + byte snapshot compared with the model; random legacy projects judged back by TLC",
             text="TLC checks Refuse/RefuseFrame (IncompatibleSchemaVersion and an untouched layout iff version != 2, for Project, get_project, get_project from a sub-directory, init_project), MigratePreserves, CollisionLeavesJobs, UpToDateNoop, SecondNoop, OpensAfterwards and JobsNeverLost in every intermediate state of the chain, over versions {absent,0,1,2,3,10} x config location x project names x workspace_dir kinds x cache/history files x job counts; each case is materialised and executed for real, then a second migration and a fresh Project compare ids, state points, documents, files and the project document.",
             note="trusted: TLC; INI text written by the harness is cross-checked against the vendored configobj at start; only final states of the migration chain are observed on the real code (intermediate states on the spec); absolute / environment-variable workspace_dir values are not modelled", ref="5 C20, 10"),
})
CHECKS.update({
 "C12": dict(technique="explicit TLA+ model of several processes running Project() / init / document write / read / listing as file-system-call steps on contended paths (spec/lifecycle/Concurrent.tla); TLC explores ALL interleavings; every edge of the state graph executed as a controlled schedule over forked real signac processes gated at each fs step (harness/sched.py), with step label, step outcome and on-disk state compared at every step",
             text="TLC checks NoActorError, NoTornObservation, ReadsSeeCompletedWrites, FinalSequential, ListingSane over 13 built-in scenarios (same / different jobs, empty / populated workspace, a pre-opened Project while the workspace is created, document writers on different jobs with readers; 2 actors exhaustively, 3 actors exhaustively in TLC and by sampled schedules on the code) and must FIND the expected violation on six deliberately broken protocol variants. Schedules generated from the state graph are run with real processes; actor errors, torn or stale reads, the final check(), job set, documents and litter are judged from observation.",
             note="trusted: TLC; the gating shim (step sequence audited against strace); rename(2) atomicity; files are written with one write() call (partial prefixes are C10's matter); same-document read-modify-write races are outside the property; the cache and config files are not gated (no actor writes them)", ref="5 C12, 10", engine="tlc+sched"),
})
def main():
    checks = []
    for pid, c in CHECKS.items():
        checks.append({
            "property_id": pid,
            "quick_cmd": "./check %s --tier quick" % pid,
            "thorough_cmd": "./check %s --tier thorough" % pid,
            "evidence_file": "/verif/evidence/%s.json" % pid,
            "replay_cmd_template": "./check %s --replay {path}" % pid,
            "engine": c.get("engine", "tlc+replay"),
            "level_claimed": {"category": c.get("level", "model_checking"), "text": c["text"], "design_ref": "DESIGN.md " + c["ref"]},
            "level_note": c["note"],
            "technique": c["technique"],
        })
    na = [{"property_id": p, "reason": NA.get(p, "not built yet in this round; the design (DESIGN.md 5) covers it and a later commit adds the check")} for p in ALL if p not in CHECKS]
    m = {
        "version": 1,
        "setup_cmd": "cd /verif && ./setup.sh",
        "hooks": {"guard": "SIGNAC_VERIF", "enable": "export SIGNAC_VERIF=1 (set by ./check): activates the out-of-tree recorder / file-system shim in /verif/harness; signac sources carry no hook", "baseline_off_cmd": "cd /repo && env -u SIGNAC_VERIF /venv/bin/python -m pytest -ra -q -p no:cacheprovider --timeout=900 --continue-on-collection-errors", "source_commits": [], "add_only": True},
        "engines": [{"name": "tlc+sched", "path": "/verif/harness/sched.py", "serves_properties": ["C12"], "kind_free_text": "forked real actor processes whose file-system steps on contended paths are granted one at a time by a controller following schedules derived from TLC state graphs"}, {"name": "tlc+fsshim", "path": "/verif/harness/fsshim.py", "serves_properties": ["C10", "C11"], "kind_free_text": "in-process interposition on the file-system entry points (record / crash@k freeze / torn@k,p / fail@k,errno) driving fault scripts generated by TLC"}, {"name": "tlc+replay", "path": "/verif/harness", "serves_properties": sorted(CHECKS), "kind_free_text": "explicit TLA+ specifications under /verif/spec checked with TLC; bound to the code by replaying TLC-generated cases/behaviours into signac and by validating recorded executions of signac against the specification"}],
        "checks": checks,
        "not_applicable": na,
        "notes": "Every check: ./check <ID> --tier quick|thorough. Exit 0 held / 1 VIOLATION / 2 machinery failure. Known findings: /verif/known_findings.json.",
    }
    json.dump(m, open(os.path.join(HERE, "MANIFEST.json"), "w"), indent=1)
NA = {}
if __name__ == "__main__":
    main()

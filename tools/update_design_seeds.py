#!/venv/bin/python
"""regenerates the table of DESIGN.md section 10.6 from seeded/*/meta.json (tools/seedmeta.py must have run)"""
import re, subprocess, glob
p = '/verif/DESIGN.md'
s = open(p).read()
table = subprocess.check_output(['/venv/bin/python', '/verif/tools/seedtable.py']).decode()
start = s.index("| seeded change | property |")
end = s.index("\n\n", start)
s = s[:start] + table.rstrip("\n") + s[end:]
n = len(glob.glob('/verif/seeded/C*-*'))
open(p, 'w').write(s)
print("table rows:", table.count("\n") - 2, "seed dirs:", n)

#!/venv/bin/python
"""dev loop: TLC dump of Workspace.tla for an op alphabet, replay every edge, summarise mismatches"""
import sys, os, collections, random, time, json
sys.path.insert(0, "/verif"); sys.path.insert(1, os.environ.get("VERIF_REPO", "/repo"))
from harness import core, tlc, wsengine as W
ops = sys.argv[1].split(","); depth = int(sys.argv[2]); spelling = sys.argv[3] if len(sys.argv) > 3 else "int"
projects = sys.argv[4].split(",") if len(sys.argv) > 4 else ["P"]
limit = int(sys.argv[5]) if len(sys.argv) > 5 else None
ctx = core.Ctx("dev", "quick", 1)
uni = W.Universe(spelling=spelling)
nj = int(os.environ.get("NJ", "0"))
mc = W.write_mc(ctx, uni, ops, "dev", init_jobs=uni.order[:nj], init_cache=(False, True) if nj else (False,))
cfg = W.mc_cfg(uni, projects, ["h1", "h2"], ["d1"], ["f1"], ["c1"], depth)
dot = os.path.join(ctx.work, "g.dot")
t0 = time.time()
r = tlc.run(mc, cfg_text=cfg, workdir=ctx.work, dump=dot, coverage=False, workers=8)
print("TLC", r.distinct, "states", r.generated, "generated", round(time.time() - t0, 1), "s", "violation:", r.violation and r.violation["name"])
t0 = time.time()
total, nn, flat = W.replay_graph(ctx, dot, uni, projects, limit=limit, rnd=random.Random(1), procs=8)
mism = collections.Counter(); ex = {}
for u, v, on_edge, bad, verd, script in flat:
    if bad and on_edge:
        key = (script[-1]["op"], bad[0][0], str(bad[0][1])[:40], str(bad[0][2])[:40] if len(bad[0]) > 2 else "")
        mism[key] += 1; ex.setdefault(key, (script, bad))
print("edges", total, "replayed", len(flat), "in", round(time.time() - t0, 1), "s; mismatching kinds", len(mism), "total", sum(mism.values()))
for k, c in mism.most_common(12):
    print(c, k)
    print("   script:", [(s["op"], s["args"], s["res"]) for s in ex[k][0]])
    print("   diff:", str(ex[k][1])[:900])
ctx.cleanup()

#!/venv/bin/python
"""(re)writes /verif/seeded/<name>/meta.json from the agent's meta, result.txt and the check summaries"""
import json, os, glob, re, subprocess
head = subprocess.run(["git", "-C", "/repo", "log", "--format=%h", "-1"], capture_output=True, text=True).stdout.strip()
HIST = json.load(open('/verif/seeded/history.json')) if os.path.exists('/verif/seeded/history.json') else {}
for d in sorted(glob.glob('/verif/seeded/C*-*')):
    name = os.path.basename(d)
    old = json.load(open(d + '/meta.json')) if os.path.exists(d + '/meta.json') else {}
    agent = json.load(open(d + '/meta.agent.json')) if os.path.exists(d + '/meta.agent.json') else {}
    res = open(d + '/result.txt').read().strip() if os.path.exists(d + '/result.txt') else ''
    sigs = {}
    for f in glob.glob(d + '/check_*.summary'):
        c = os.path.basename(f)[6:-8]
        sigs[c] = sorted(set(re.findall(r'signature: (.*)', open(f, errors='replace').read())))[:8]
    m = re.search(r'demo_before=(\d+) demo_after=(\d+) tests=\[(.*?)\] checks=\[(.*?)\]', res)
    meta = {"property": agent.get("property") or old.get("property") or name.split('-')[0],
            "summary": agent.get("summary") or old.get("summary"),
            "needs_to_manifest": agent.get("needs") or old.get("needs_to_manifest"),
            "files_touched": agent.get("files_touched") or old.get("files_touched"),
            "confirmed_by_me": {"how": "tools/seedcheck.sh: scratch git worktree of /repo HEAD; demo.py before / after `git apply patch.diff`; baseline pytest in the patched worktree; then VERIF_REPO=<worktree> ./check <PID> --tier quick; worktree removed",
                                "demo_exit_unmodified": int(m.group(1)) if m else None, "demo_exit_modified": int(m.group(2)) if m else None,
                                "baseline_tests_with_change": m.group(3) if m else None},
            "detection": {"checks_run": m.group(4).split() if m else [], "violation_signatures": sigs},
            "history": old.get("history") or HIST.get(name, []),
            "based_on_repo_commit": old.get("based_on_repo_commit") or head,
            "last_confirmed_on_repo_commit": head}
    json.dump(meta, open(d + '/meta.json', 'w'), indent=1)
    if os.path.exists(d + '/meta.agent.json'):
        os.remove(d + '/meta.agent.json')
    print(name, meta['confirmed_by_me']['demo_exit_unmodified'], meta['confirmed_by_me']['demo_exit_modified'], meta['detection']['checks_run'])
